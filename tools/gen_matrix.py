"""print the as-built property x rule-group matrix (markdown) from an actual run on /repo"""
import sys, os, warnings
warnings.simplefilter('ignore'); sys.setrecursionlimit(10000)
sys.path.insert(0, os.path.dirname(os.path.dirname(os.path.abspath(__file__))))
from ssjlint.model import Repo
from ssjlint.props import PROPS
from ssjlint.__main__ import run_property
repo = Repo.from_dir('/repo')
rows = {}
groups = []
for p in sorted(PROPS):
    ctx, err = run_property(p, 'quick', repo=repo)
    rows[p] = (ctx.rule_groups, len(ctx.obligations), len(ctx.functions))
    for g in ctx.rule_groups:
        if g not in groups:
            groups.append(g)
print('| | ' + ' | '.join(g.replace('R-', '') for g in groups) + ' | instances | functions |')
print('|---|' + '---|' * (len(groups) + 2))
for p in sorted(rows):
    gs, n, nf = rows[p]
    print('| %s | ' % p + ' | '.join('●' if g in gs else '' for g in groups) + ' | %d | %d |' % (n, nf))
