#!/bin/bash
# usage: score_refactor.sh <id> <patch>: apply a behaviour-preserving patch; every check must stay silent (exit 0)
id=$1; patch=$2
cd /repo && git apply "$patch" 2>/dev/null || { echo "$id APPLY-FAILED"; exit 3; }
cd /verif; loud=""
for p in $(/venv/bin/python -c "import sys; sys.path.insert(0,'/verif'); from ssjlint.props import PROPS; print(' '.join(sorted(PROPS)))"); do
  out=$(/venv/bin/python -m ssjlint --property $p --no-evidence 2>&1); r=$?
  if [ $r -ne 0 ]; then loud="$loud\n   $p exit=$r :: $(echo "$out" | grep -E "^R-|ANALYSIS-ERROR" | head -2 | cut -c1-230 | tr '\n' '|')"; fi
done
git -C /repo checkout -q -- .
if [ -z "$loud" ]; then echo "$id silent"; else echo -e "$id LOUD:$loud"; fi
