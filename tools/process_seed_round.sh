#!/bin/bash
# usage: process_seed_round.sh <suffixA> <suffixB> <round> <props...>  - confirm, score and store a round of seeded changes
sa=$1; sb=$2; round=$3; shift 3
out=/tmp/seed_scores_r$round.txt; : > $out
for id in "$@"; do
  for v in A B; do
    [ $v = A ] && n=$sa || n=$sb
    res=$(/verif/tools/verify_seed.sh /tmp/seed_$id /tmp/seed_${id}_out/patch$v.diff /tmp/seed_${id}_out/demo$v.py 2>&1 | tail -1)
    echo "$id$n CONFIRM $res" >> $out
    case "$res" in *"clean_demo=0 patched_demo=1 baseline_missing=0"*) /verif/tools/score_seed.sh ${id}$n /tmp/seed_${id}_out/patch$v.diff >> $out 2>&1;; esac
  done
done
cat $out
