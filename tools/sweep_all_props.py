"""Development aid: every generated single-edit mutant of every in-scope source file, run against ALL property
checks in memory (stops at the first property that reports); prints the mutants no check reports, for reading.
usage: sweep_all_props.py [path-substring ...]"""
import sys, warnings, re, os, time
warnings.simplefilter('ignore'); sys.setrecursionlimit(10000)
ROOT = os.path.dirname(os.path.dirname(os.path.abspath(__file__)))
sys.path.insert(0, ROOT); sys.path.insert(0, os.path.join(ROOT, 'tools'))
import multiprocessing
from ssjlint.model import Repo
import mutation_study as ms

ORDER = ['C17', 'C16', 'C12', 'C10', 'C14', 'C13', 'C03', 'C09', 'C01', 'C04', 'C08', 'C06', 'C11', 'C02', 'C05', 'C15']
base = Repo.load_sources('/repo')


BASE_IDS = {}


def _base_ids(props):
    from ssjlint.__main__ import run_property
    from ssjlint.flow import clear_cache
    for p in props:
        clear_cache()
        ctx, err = run_property(p, 'quick', repo=Repo(base))
        BASE_IDS[p] = set(f.ident for f in ctx.findings)


def work(a):
    d, r, n = a
    from ssjlint.__main__ import run_property
    from ssjlint.flow import clear_cache
    src = dict(base); src[r] = n
    errs = []
    for p in ORDER:
        clear_cache()
        try:
            ctx, err = run_property(p, 'quick', repo=Repo(src))
        except Exception:
            errs.append(p); continue
        new = [f for f in ctx.findings if f.ident not in BASE_IDS.get(p, ())]
        if new:
            return d, p + ':' + new[0].rule, errs
        if err:
            errs.append(p)
    return d, None, errs


def main():
    filt = sys.argv[1:]
    muts = []
    for rel in sorted(base):
        if any(s in rel for s in ms.SKIP_FILES) or ms.area_of(rel) is None:
            continue
        if filt and not any(f in rel for f in filt):
            continue
        for d, n in ms.mutants_of(rel, base[rel]):
            muts.append((d, rel, n))
    print(len(muts), 'mutants', flush=True)
    _base_ids(ORDER)
    t0 = time.time()
    with multiprocessing.get_context('fork').Pool(16) as pool:
        res = pool.map(work, muts, chunksize=2)
    print('done in %.0fs' % (time.time() - t0))
    rep = [x for x in res if x[1]]
    und = [x for x in res if not x[1] and x[2]]
    sil = [x for x in res if not x[1] and not x[2]]
    print('reported', len(rep), 'undecided', len(und), 'silent', len(sil))
    for d, _, _ in sil:
        m = re.match(r'(\S+):(\d+) (.*)', d)
        src = base[m.group(1)].split('\n')
        print('SILENT', d[:120], '|', src[int(m.group(2)) - 1].strip()[:90])
    for d, _, e in und:
        print('UNDECIDED', d[:110], e)


if __name__ == '__main__':
    main()
