import sys, warnings, re, json
warnings.simplefilter('ignore'); sys.setrecursionlimit(10000)
sys.path.insert(0,'/verif'); sys.path.insert(0,'/verif/tools')
import multiprocessing
from ssjlint.model import Repo
import mutation_study as ms
rel=sys.argv[1]; props=sys.argv[2].split(',')
lo,hi=(int(x) for x in sys.argv[3].split('-')) if len(sys.argv)>3 else (0,10**9)
base=Repo.load_sources('/repo')
muts=[(d,r,n) for d,r,n in ((d,rel,n) for d,n in ms.mutants_of(rel, base[rel])) if lo<=int(re.match(r'\S+:(\d+)',d).group(1))<=hi]
print(len(muts),'mutants',flush=True)
BASE_IDS = {}


def _base_ids(props):
    from ssjlint.__main__ import run_property
    from ssjlint.flow import clear_cache
    for p in props:
        clear_cache()
        ctx, err = run_property(p, 'quick', repo=Repo(base))
        BASE_IDS[p] = set(f.ident for f in ctx.findings)


def work(a):
    d,r,n=a
    from ssjlint.__main__ import run_property
    from ssjlint.flow import clear_cache
    src=dict(base); src[r]=n
    fired=[];errs=[]
    for p in props:
        clear_cache()
        try:
            ctx,err=run_property(p,'quick',repo=Repo(src))
        except Exception as e:
            errs.append(p); continue
        new=[f for f in ctx.findings if f.ident not in BASE_IDS.get(p, ())]
        if new: fired.append(p+':'+new[0].rule)
        elif err: errs.append(p)
    return d,fired,errs
_base_ids(props)
with multiprocessing.get_context('fork').Pool(16) as pool:
    res=pool.map(work,muts,chunksize=2)
sil=[d for d,f,e in res if not f and not e]
und=[d for d,f,e in res if not f and e]
print('reported',len([1 for d,f,e in res if f]),'undecided',len(und),'silent',len(sil))
src=base[rel].split('\n')
for d in sil:
    ln=int(re.match(r'\S+:(\d+)',d).group(1))
    print('SILENT',d[len(rel)+1:][:70],'|',src[ln-1].strip()[:90])
for d in und: print('UNDECIDED',d[len(rel)+1:][:70])
