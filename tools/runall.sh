#!/bin/bash
# run every claimed quick check on the current tree; print status per property
cd /verif
rc=0
for p in $(/venv/bin/python -c "import sys; sys.path.insert(0,'/verif'); from ssjlint.props import PROPS; print(' '.join(sorted(PROPS)))"); do
  out=$(/venv/bin/python -m ssjlint --property $p --tier ${1:-quick} "${@:2}" 2>&1); r=$?
  echo "$out" | tail -${TAILN:-1}; [ $r -ne 0 ] && { echo "   ^^^ exit=$r"; rc=1; }
done
exit $rc
