import sys
pid=sys.argv[1]
prop=open('/tmp/prop_%s.txt'%pid).read()
AVOID=sys.argv[2] if len(sys.argv)>2 else ''
avoid_txt=('\nALREADY COVERED by earlier rounds - do NOT produce these or close variations of them, find different places and mechanisms: '+AVOID+'\n') if AVOID else ''
print(f"""You are helping to evaluate a verification tool by producing realistic faulty versions ("seeded changes") of a Python library. Work ONLY inside the git worktree /tmp/seed_{pid} (a checkout of the library py_stringsimjoin: string similarity joins over two pandas tables) and write your deliverables to /tmp/seed_{pid}_out/. Do NOT read, list or touch /verif or /repo, and do not look for other people's seeded changes — your change must be independent.

PROPERTY that the library must satisfy (this is all you are told about it):

{prop}
YOUR TASK: produce TWO different, independent changes (variant A and variant B) to the library's non-test source (files under /tmp/seed_{pid}/py_stringsimjoin/ outside tests/; only the pure-Python path matters: the `*_py.py` joins, filter/, index/, matcher/, utils/, profiler/ — the Cython `.pyx` files are not built here) such that each change
  1. BREAKS the property above for some input / call sequence,
  2. still imports and compiles,
  3. still passes the pinned test suite: run `cd /tmp/seed_{pid} && /venv/bin/python -m pytest -q -p no:cacheprovider --timeout=900 --continue-on-collection-errors 2>&1 | tail -5`. Many tests in this sandbox already fail or error for environment reasons — what matters is that every test listed under "stable_pass" in /root/.vp/BASELINE.json (109 tests) still passes with your change (compare the set of passing test ids before/after, e.g. with --junitxml),
  4. is REALISTIC (the kind of slip a maintainer could make in a refactor or "optimisation": off-by-one, wrong variable of a left/right pair, a dropped branch, a moved statement, a changed condition, a lost argument in one of two near-identical call sites, state not restored on some path, ...) and SMALL (a few lines),
  5. needs SOMETHING SPECIFIC to manifest — e.g. an unusual input (particular token counts/threshold values, empty strings, missing values on one side only, duplicate attribute names, extra columns), a particular n_jobs, a multi-step sequence of API calls sharing objects, or two cooperating edits that each look fine alone. It must NOT be something any ordinary call exposes at once (e.g. do not simply make a function always raise, and do not break the trivial happy path).
Make A and B genuinely different (different files/mechanisms), not two flavours of the same edit.{avoid_txt}

For each variant write a standalone demonstration program that PASSES (exit code 0) on the unmodified tree and FAILS (non-zero exit: assertion error or exception) with the change applied. The demo takes the path of the library checkout as sys.argv[1] (default: the worktree), does `sys.path.insert(0, path)` before importing py_stringsimjoin, and checks the property's observable behaviour (against an independently computed expectation — brute force in the demo itself is fine).

ENVIRONMENT FACTS (important):
 - Use /venv/bin/python (3.12; pandas 3.0.6, numpy 1.26, py_stringmatching 0.4.7). Run with PYTHONDONTWRITEBYTECODE=1 and delete any __pycache__ you create.
 - After `import py_stringsimjoin as ssj` you MUST set `ssj.__use_cython__ = False` (the Cython modules are not built; with the flag off the public functions ssj.jaccard_join, ssj.cosine_join, ssj.dice_join, ssj.overlap_join, ssj.overlap_coefficient_join, ssj.edit_distance_join dispatch to the pure-Python implementations). Filters: ssj.SizeFilter/PrefixFilter/PositionFilter/SuffixFilter/OverlapFilter; ssj.apply_matcher; ssj.profile_table_for_join; ssj.dataframe_column_to_str / ssj.series_to_str.
 - Tokenizers/measures come from py_stringmatching (e.g. `from py_stringmatching import WhitespaceTokenizer, QgramTokenizer, Jaccard`). Pass show_progress=False. n_jobs>1 works (joblib).
 - pandas 3: `np.NaN` still exists in numpy 1.26. String columns may be object dtype or the default pandas string dtype; both are accepted.
 - The worktree is at a commit that is a detached HEAD; do NOT commit. Produce the patch with `git -C /tmp/seed_{pid} diff > /tmp/seed_{pid}_out/patchA.diff`, then `git -C /tmp/seed_{pid} checkout -- .` to reset before working on variant B.

DELIVERABLES in /tmp/seed_{pid}_out/ :
  patchA.diff, demoA.py, patchB.diff, demoB.py, and meta.json = {{"property": "{pid}", "A": {{"summary": "...", "needs_to_manifest": "...", "files": [...], "ran": "commands you ran and what you observed"}}, "B": {{...}}}}
Before you finish, VERIFY for each variant: (i) on the clean tree the demo exits 0; (ii) with the patch applied (`git -C /tmp/seed_{pid} apply /tmp/seed_{pid}_out/patchA.diff`) the demo exits non-zero; (iii) with the patch applied the 109 stable_pass tests still pass; then reset the worktree to clean (`git -C /tmp/seed_{pid} checkout -- .`). Leave the worktree clean at the end. In your final message, summarise both variants in a few lines each (what was changed, why it breaks the property, what input exposes it, and the verification you ran).""")
