import sys, warnings; warnings.simplefilter('ignore')
sys.path.insert(0, sys.argv[1] if len(sys.argv)>1 else '/repo')
import pandas as pd, py_stringsimjoin as ssj
ssj.__use_cython__=False
from py_stringmatching import WhitespaceTokenizer
shared=['s%d'%i for i in range(7)]; uniq=['u%02d'%i for i in range(18)]
A=pd.DataFrame({'id':[1],'v':pd.Series([' '.join(uniq+shared)],dtype=object)})
B=pd.DataFrame({'id':[1],'v':pd.Series([' '.join(shared)],dtype=object)})
tok=WhitespaceTokenizer(return_set=True)
r=ssj.jaccard_join(A,B,'id','id','v','v',tok,0.28,show_progress=False)
print('jaccard 0.28 rows:',len(r)); 
r2=ssj.jaccard_join(A,B,'id','id','v','v',tok,0.27,show_progress=False)
print('jaccard 0.27 rows:',len(r2), r2['_sim_score'].tolist())
print('prefix filter_pair drops:', ssj.PrefixFilter(tok,'JACCARD',0.28).filter_pair(A.v[0],B.v[0]))
assert len(r)==1, 'D0: qualifying pair (score 0.28) missing at threshold 0.28'
