import sys, warnings; warnings.simplefilter('ignore')
sys.path.insert(0, sys.argv[1] if len(sys.argv)>1 else '/repo')
import pandas as pd, numpy as np, py_stringsimjoin as ssj
s=ssj.series_to_str(pd.Series(['a','b']))
print(list(s))
df=pd.DataFrame({'i':[1,2,3],'f':[1.0,np.nan,3.5],'g':[1.0,np.nan,3.0],'s':['x','y','z']})
o=ssj.dataframe_column_to_str(df,'i'); print(o.i.tolist(), df.i.tolist()); assert o.i.tolist()==['1','2','3'] and df.i.tolist()==[1,2,3]
o=ssj.dataframe_column_to_str(df,'f'); print(o.f.tolist()); assert o.f.tolist()[0]=='1.0' and pd.isnull(o.f.tolist()[1]) and o.f.tolist()[2]=='3.5'
o=ssj.dataframe_column_to_str(df,'g'); print(o.g.tolist()); assert o.g.tolist()[0]=='1' and pd.isnull(o.g.tolist()[1])
d2=df.copy(); assert ssj.dataframe_column_to_str(d2,'i',inplace=True) is True; print(d2.i.tolist()); assert d2.i.tolist()==['1','2','3']
d2=df.copy(); assert ssj.dataframe_column_to_str(d2,'f',inplace=True) is True; print(d2.f.tolist()); assert d2.f.tolist()[0]=='1.0' and pd.isnull(d2.f.tolist()[1])
c=ssj.dataframe_column_to_str(df,'g',return_col=True); print(c.tolist()); assert c.tolist()[0]=='1'
o=ssj.dataframe_column_to_str(df,'s'); assert o.s.tolist()==['x','y','z']
