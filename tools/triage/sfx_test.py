import sys, warnings, itertools, random; warnings.simplefilter('ignore')
root=sys.argv[1]; sys.path.insert(0,root)
import py_stringsimjoin as ssj
from py_stringmatching import WhitespaceTokenizer, QgramTokenizer
from py_stringmatching import Jaccard, Cosine, Dice, Levenshtein
tok=WhitespaceTokenizer(return_set=True)
U=['t%02d'%i for i in range(8)]
subsets=[c for n in range(1,7) for c in itertools.combinations(U,n)]
meas={'JACCARD':Jaccard().get_raw_score,'COSINE':Cosine().get_raw_score,'DICE':Dice().get_raw_score}
bad=0; dropped=set(); total=0
for m,fn in meas.items():
  for t in (0.3,0.4,0.5,0.6,0.7,0.8,0.9,1.0):
    sf=ssj.SuffixFilter(tok,m,t)
    for L in subsets:
      ls=' '.join(L)
      for R in subsets:
        total+=1
        d=sf.filter_pair(ls,' '.join(R))
        if d:
            dropped.add((m,t,L,R))
            if round(fn(set(L),set(R)),4)>=t: bad+=1
print('set measures: pairs',total,'dropped',len(dropped),'qualifying dropped',bad)
# overlap measure
bad2=0
for t in (1,2,3):
    sf=ssj.SuffixFilter(tok,'OVERLAP',t)
    for L in subsets[::3]:
        for R in subsets[::3]:
            if sf.filter_pair(' '.join(L),' '.join(R)) and len(set(L)&set(R))>=t: bad2+=1
print('overlap qualifying dropped',bad2)
# edit distance (bags of qgrams)
random.seed(1); lev=Levenshtein().get_raw_score
strs=[''.join(random.choice('ab') for _ in range(random.randint(1,6))) for _ in range(120)]
bad3=0; dd=0
for q,pad in ((2,True),(2,False),(3,True)):
    qt=QgramTokenizer(qval=q,padding=pad)
    for t in (1,2):
        sf=ssj.SuffixFilter(qt,'EDIT_DISTANCE',t)
        for a in strs:
            for b in strs[:60]:
                d=sf.filter_pair(a,b)
                if d:
                    dd+=1
                    if lev(a,b)<=t and set(qt.tokenize(a))&set(qt.tokenize(b)): bad3+=1
print('edit dropped',dd,'qualifying dropped',bad3)
import pickle
pickle.dump(dropped,open(sys.argv[2],'wb'))
