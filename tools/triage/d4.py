import sys, warnings; warnings.simplefilter('ignore')
sys.path.insert(0, sys.argv[1] if len(sys.argv)>1 else '/repo')
import pandas as pd, py_stringsimjoin as ssj
ssj.__use_cython__=False
from py_stringmatching import WhitespaceTokenizer
A=pd.DataFrame({'id':[1,2],'v':['a b','c']})   # default pandas-3 string dtype
print(A.v.dtype)
tok=WhitespaceTokenizer(return_set=True)
r=ssj.jaccard_join(A,A,'id','id','v','v',tok,0.5,show_progress=False)
print(r); assert len(r)==2
N=pd.DataFrame({'id':[1,2],'v':[1,2]})
try:
    ssj.jaccard_join(N,A,'id','id','v','v',tok,0.5,show_progress=False); raise SystemExit('numeric accepted')
except AssertionError as e: print('numeric rejected ok')
