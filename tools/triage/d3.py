import sys, warnings; warnings.simplefilter('ignore')
sys.path.insert(0, sys.argv[1] if len(sys.argv)>1 else '/repo')
import pandas as pd, numpy as np, py_stringsimjoin as ssj
n=40001
T=pd.DataFrame({'a':[0]+list(range(n-1)), 'b':[None]+[str(i) for i in range(n-1)]})
p=ssj.profile_table_for_join(T)
print(p.to_string())
assert 'key' not in p.loc['a','Comments'], 'column with a duplicate recommended as key'
assert 'ignore' in p.loc['b','Comments'], 'missing value not warned'
