import sys, warnings; warnings.simplefilter('ignore')
sys.path.insert(0, sys.argv[1] if len(sys.argv)>1 else '/repo')
import pandas as pd, py_stringsimjoin as ssj
ssj.__use_cython__=False
from py_stringmatching import WhitespaceTokenizer
A=pd.DataFrame({'id':[1],'v':pd.Series(['a b'],dtype=object)})
tok=WhitespaceTokenizer(return_set=False)
try:
    ssj.overlap_join(A,A,'id','id','v','v',tok,-1,show_progress=False)
except AssertionError as e: print('rejected:',e)
print('return_set after rejected call:',tok.get_return_set())
assert tok.get_return_set()==False
