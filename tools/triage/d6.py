import sys, warnings; warnings.simplefilter('ignore')
sys.path.insert(0, sys.argv[1] if len(sys.argv)>1 else '/repo')
import pandas as pd, py_stringsimjoin as ssj
T=pd.DataFrame({'a':pd.Series([],dtype=object),'b':pd.Series([],dtype=int)})
p=ssj.profile_table_for_join(T); print(p.to_string())
assert len(p)==2
