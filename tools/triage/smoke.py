import sys, warnings; warnings.simplefilter('ignore')
sys.path.insert(0, sys.argv[1] if len(sys.argv)>1 else '/repo')
import pandas as pd, numpy as np, py_stringsimjoin as ssj
ssj.__use_cython__=False
from py_stringmatching import WhitespaceTokenizer, QgramTokenizer, Jaccard
for dt in (object, 'str'):
    A=pd.DataFrame({'id':[1,2,3,4],'v':pd.Series(['a b c',None,'','a b'],dtype=dt),'x':[9,8,7,6]})
    B=pd.DataFrame({'id':[1,2,3],'v':pd.Series(['a b','',None],dtype=dt),'y':['p','q','r']})
    tok=WhitespaceTokenizer(return_set=False)
    for nm,fn in [('jac',ssj.jaccard_join),('cos',ssj.cosine_join),('dice',ssj.dice_join),('oc',ssj.overlap_coefficient_join)]:
        r=fn(A,B,'id','id','v','v',tok,0.5,allow_missing=True,l_out_attrs=['x','v'],r_out_attrs=['y'],show_progress=False,n_jobs=2)
        print(dt,nm,len(r),list(r.columns))
    r=ssj.overlap_join(A,B,'id','id','v','v',tok,1,allow_missing=True,show_progress=False); print(dt,'ov',len(r))
    r=ssj.edit_distance_join(A,B,'id','id','v','v',2,allow_missing=True,show_progress=False); print(dt,'ed',len(r))
    assert tok.get_return_set()==False
    ts=WhitespaceTokenizer(return_set=True)
    for F in (ssj.SizeFilter,ssj.PrefixFilter,ssj.PositionFilter,ssj.SuffixFilter):
        f=F(ts,'JACCARD',0.5,allow_missing=True)
        c=f.filter_tables(A,B,'id','id','v','v',show_progress=False)
        c2=f.filter_candset(c,'l_id','r_id',A,B,'id','id','v','v',show_progress=False)
        m=ssj.apply_matcher(c,'l_id','r_id',A,B,'id','id','v','v',ts,Jaccard().get_raw_score,0.5,allow_missing=True,show_progress=False)
        print(dt,F.__name__,len(c),len(c2),len(m))
print('OK')
