import sys, warnings, itertools, random; warnings.simplefilter('ignore')
root=sys.argv[1]; sys.path.insert(0,root)
import py_stringsimjoin as ssj
from py_stringmatching import WhitespaceTokenizer, Jaccard, Cosine, Dice
tok=WhitespaceTokenizer(return_set=True)
meas={'JACCARD':Jaccard().get_raw_score,'COSINE':Cosine().get_raw_score,'DICE':Dice().get_raw_score}
random.seed(7)
U=['t%02d'%i for i in range(14)]
bad=0; n=0; dropped=0
for it in range(60000):
    L=random.sample(U,random.randint(1,10)); 
    # bias toward overlapping pairs
    k=random.randint(0,len(L)); R=list(set(random.sample(L,k)+random.sample(U,random.randint(0,6))))
    if not R: continue
    m=random.choice(list(meas)); t=random.choice([0.3,0.4,0.5,0.6,0.7,0.8,0.9])
    sf=ssj.SuffixFilter(tok,m,t); n+=1
    if sf.filter_pair(' '.join(L),' '.join(R)):
        dropped+=1
        if round(meas[m](set(L),set(R)),4)>=t: bad+=1
print(root,'pairs',n,'dropped',dropped,'qualifying dropped',bad)
# table context
import pandas as pd
A=pd.DataFrame({'id':range(40),'v':pd.Series([' '.join(random.sample(U,random.randint(1,9))) for _ in range(40)],dtype=object)})
B=pd.DataFrame({'id':range(40),'v':pd.Series([' '.join(random.sample(U,random.randint(1,9))) for _ in range(40)],dtype=object)})
badt=0
for m in meas:
  for t in (0.4,0.5,0.7):
    sf=ssj.SuffixFilter(tok,m,t)
    c=sf.filter_tables(A,B,'id','id','v','v',show_progress=False)
    kept=set(zip(c.l_id,c.r_id))
    for i,a in zip(A.id,A.v):
        for j,b in zip(B.id,B.v):
            if round(meas[m](set(a.split()),set(b.split())),4)>=t and (i,j) not in kept: badt+=1
print('filter_tables qualifying missing',badt)
for m in meas:
  for t in (0.4,0.5,0.7):
    sf=ssj.SuffixFilter(tok,m,t)
    c=sf.filter_tables(A,B,'id','id','v','v',show_progress=False)
    kept=set(zip(c.l_id,c.r_id))
    for i,a in zip(A.id,A.v):
        for j,b in zip(B.id,B.v):
            s=round(meas[m](set(a.split()),set(b.split())),4)
            if s>=t and (i,j) not in kept: print('MISSING',m,t,i,j,repr(a),repr(b),s, 'pair-level drop:',sf.filter_pair(a,b))
