import sys, warnings; warnings.simplefilter('ignore')
sys.path.insert(0, sys.argv[1] if len(sys.argv)>1 else '/repo')
import pandas as pd, numpy as np, py_stringsimjoin as ssj
ssj.__use_cython__=False
from py_stringmatching import WhitespaceTokenizer
A=pd.DataFrame({'id':[1,2],'v':pd.Series(['a b',None],dtype=object)})
B=pd.DataFrame({'id':[1,2],'v':pd.Series(['a b','c'],dtype=object)})
tok=WhitespaceTokenizer(return_set=True)
r=ssj.jaccard_join(A,B,'id','id','v','v',tok,0.5,allow_missing=True,out_sim_score=True,show_progress=False)
print(r)
assert list(r.columns)==['_id','l_id','r_id','_sim_score'] and len(r)==3
assert r['_sim_score'].isnull().sum()==2
