#!/bin/bash
# usage: score_seed.sh <id> <patch>  -> one line: id target=<exit> others=[props that fire]
id=$1; patch=$2; target=${id:0:3}
cd /repo && git apply "$patch" || { echo "$id APPLY-FAILED"; exit 3; }
cd /verif
fired=""; tgt=""
for p in $(/venv/bin/python -c "import sys; sys.path.insert(0,'/verif'); from ssjlint.props import PROPS; print(' '.join(sorted(PROPS)))"); do
  out=$(/venv/bin/python -m ssjlint --property $p --no-evidence 2>&1); r=$?
  if [ $r -ne 0 ]; then
     rule=$(echo "$out" | grep -E "^R-|ANALYSIS-ERROR" | head -1 | cut -c1-90)
     fired="$fired $p($r)"
     [ "$p" = "$target" ] && tgt="exit=$r :: $rule"
  fi
done
git -C /repo checkout -q -- .
echo "$id TARGET[$target]: ${tgt:-MISSED} | all:$fired"
