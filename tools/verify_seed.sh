#!/bin/bash
# usage: verify_seed.sh <worktree> <patch> <demo> -> prints: clean_demo=<rc> patched_demo=<rc> baseline_missing=<n>
wt=$1; patch=$2; demo=$3
cd $wt && git checkout -q -- . 
PYTHONDONTWRITEBYTECODE=1 timeout 600 /venv/bin/python $demo $wt >/dev/null 2>&1; c=$?
git apply $patch || { echo "APPLY-FAILED"; exit 3; }
PYTHONDONTWRITEBYTECODE=1 timeout 600 /venv/bin/python $demo $wt >/dev/null 2>&1; p=$?
/venv/bin/python -m pytest -q -p no:cacheprovider --timeout=900 --continue-on-collection-errors --junitxml=$wt.junit.xml >/dev/null 2>&1
miss=$(/venv/bin/python - <<PY
import json, xml.etree.ElementTree as ET
b=json.load(open('/root/.vp/BASELINE.json'))
ok=set()
for tc in ET.parse('$wt.junit.xml').iter('testcase'):
    if not any(c.tag in('failure','error','skipped') for c in tc): ok.add(tc.get('classname')+'::'+tc.get('name'))
print(len([x for x in b['stable_pass'] if x not in ok]))
PY
)
git checkout -q -- . ; find $wt -name __pycache__ -prune -exec rm -rf {} + 2>/dev/null; rm -f $wt.junit.xml
echo "clean_demo=$c patched_demo=$p baseline_missing=$miss"
