"""Development-time mutation study (NOT a deciding check): where are the static checks blind, where loud?

For a seeded random sample of automatically generated single-edit AST mutants of /repo:
  static  = which property checks report something (in memory, Repo(sources));
  dynamic = does the digest of the refactoring agents' differential tests (refactors/<area>/difftest.py)
            change when run against a scratch copy with the mutated file.
Writes tools/triage/mutation_study.json and prints the confusion matrix. Scratch copies live under
/tmp/mutstudy and are removed."""
import ast
import copy
import hashlib
import json
import os
import random
import shutil
import subprocess
import sys
import time
import warnings

warnings.simplefilter('ignore')
sys.setrecursionlimit(10000)
ROOT = os.path.dirname(os.path.dirname(os.path.abspath(__file__)))
sys.path.insert(0, ROOT)
from ssjlint.model import Repo                    # noqa: E402
from ssjlint.props import PROPS                   # noqa: E402
from ssjlint.__main__ import run_property         # noqa: E402
from ssjlint.flow import clear_cache              # noqa: E402

REPO = '/repo'
SCRATCH = '/tmp/mutstudy'
AREAS = {
    'joins': ('py_stringsimjoin/join/',),
    'filters': ('py_stringsimjoin/filter/', 'py_stringsimjoin/index/'),
    'utils': ('py_stringsimjoin/utils/generic_helper.py', 'py_stringsimjoin/utils/token_ordering.py',
              'py_stringsimjoin/utils/missing_value_handler.py', 'py_stringsimjoin/utils/simfunctions.py',
              'py_stringsimjoin/utils/validation.py'),
    'misc': ('py_stringsimjoin/matcher/', 'py_stringsimjoin/profiler/', 'py_stringsimjoin/utils/converter.py'),
}
SKIP_FILES = ('disk_edit_distance_join', 'missing_value_handler_disk', 'pickle.py', 'datasets/', '__init__')
CMP_SWAP = {ast.Lt: ast.LtE, ast.LtE: ast.Lt, ast.Gt: ast.GtE, ast.GtE: ast.Gt, ast.Eq: ast.NotEq, ast.NotEq: ast.Eq}


def area_of(rel):
    for a, pref in AREAS.items():
        if any(rel.startswith(p) for p in pref):
            return a
    return None


def difftests_for(rel):
    a = area_of(rel)
    out = [a] if a else []
    # shared helpers are exercised by every battery; the filters one is the fastest
    if a in ('utils',):
        out.append('filters')
    if a == 'filters':
        out.append('joins')
    return out


def mutants_of(rel, src):
    """yield (description, new source) for single edits"""
    tree = ast.parse(src)
    doc_nodes = set()
    for n in ast.walk(tree):
        if isinstance(n, (ast.FunctionDef, ast.ClassDef, ast.Module)) and n.body and isinstance(n.body[0], ast.Expr) \
                and isinstance(n.body[0].value, ast.Constant) and isinstance(n.body[0].value.value, str):
            doc_nodes.add(id(n.body[0]))
    sites = []
    funcs = [n for n in ast.walk(tree) if isinstance(n, ast.FunctionDef)]
    for fn in funcs:
        names = set(x.id for x in ast.walk(fn) if isinstance(x, ast.Name)) | set(a.arg for a in fn.args.args)
        for n in ast.walk(fn):
            if isinstance(n, ast.Compare) and len(n.ops) == 1 and type(n.ops[0]) in CMP_SWAP:
                sites.append(('cmp', n, None))
            elif isinstance(n, ast.Constant) and isinstance(n.value, int) and not isinstance(n.value, bool) and n.value in (0, 1, 2, 4):
                sites.append(('const+1', n, None))
                if n.value > 0:
                    sites.append(('const-1', n, None))
            elif isinstance(n, ast.Constant) and isinstance(n.value, bool):
                sites.append(('bool', n, None))
            elif isinstance(n, ast.BoolOp):
                sites.append(('boolop', n, None))
            elif isinstance(n, ast.If) and not any('prog_bar' in ast.unparse(x) or 'show_progress' in ast.unparse(n.test) for x in n.body[:1]):
                sites.append(('negate-if', n, None))
            elif isinstance(n, ast.BinOp) and isinstance(n.op, (ast.Add, ast.Sub)) and not isinstance(n.left, ast.Constant) \
                    and not any(isinstance(x, ast.Constant) and isinstance(x.value, str) for x in ast.walk(n)):
                sites.append(('arith', n, None))
            elif isinstance(n, ast.Name) and isinstance(n.ctx, ast.Load) and (n.id.startswith('l_') or n.id.startswith('r_') or n.id.startswith('ltable') or n.id.startswith('rtable')):
                other = ('r' if n.id[0] == 'l' else 'l') + n.id[1:]
                if other in names:
                    sites.append(('side', n, other))
            elif isinstance(n, ast.Call) and isinstance(n.func, ast.Name) and n.func.id in ('min', 'max', 'ceil', 'floor'):
                sites.append(('fn', n, None))
            elif isinstance(n, (ast.AugAssign, ast.Continue)) or (isinstance(n, ast.Expr) and id(n) not in doc_nodes and isinstance(n.value, ast.Call)
                                                                  and 'prog_bar' not in ast.unparse(n) and 'print' not in ast.unparse(n)):
                sites.append(('delete', n, None))
    for kind, node, extra in sites:
        t2 = copy.deepcopy(tree)
        # locate the copied node by position and type
        cand = [x for x in ast.walk(t2) if type(x) is type(node) and getattr(x, 'lineno', None) == getattr(node, 'lineno', None)
                and getattr(x, 'col_offset', None) == getattr(node, 'col_offset', None)]
        if not cand:
            continue
        x = cand[0]
        desc = '%s:%d %s `%s`' % (rel, node.lineno, kind, ast.unparse(node).split('\n')[0][:50])
        if kind == 'cmp':
            x.ops = [CMP_SWAP[type(x.ops[0])]()]
        elif kind == 'const+1':
            x.value = x.value + 1
        elif kind == 'const-1':
            x.value = x.value - 1
        elif kind == 'bool':
            x.value = not x.value
        elif kind == 'boolop':
            x.op = ast.Or() if isinstance(x.op, ast.And) else ast.And()
        elif kind == 'negate-if':
            x.test = ast.UnaryOp(op=ast.Not(), operand=x.test)
        elif kind == 'arith':
            x.op = ast.Sub() if isinstance(x.op, ast.Add) else ast.Add()
        elif kind == 'side':
            x.id = extra
        elif kind == 'fn':
            x.func.id = {'min': 'max', 'max': 'min', 'ceil': 'floor', 'floor': 'ceil'}[x.func.id]
        elif kind == 'delete':
            # replace by `pass`
            done = False
            for parent in ast.walk(t2):
                for fld in ('body', 'orelse', 'finalbody'):
                    lst = getattr(parent, fld, None)
                    if isinstance(lst, list) and x in lst:
                        lst[lst.index(x)] = ast.copy_location(ast.Pass(), x)
                        done = True
            if not done:
                continue
        try:
            ast.fix_missing_locations(t2)
            new = ast.unparse(t2)
            compile(new, rel, 'exec')
        except Exception:
            continue
        yield desc, new


def static_verdict(args):
    desc, rel, new_src, base = args
    clear_cache()
    src = dict(base)
    src[rel] = new_src
    fired, errors = [], []
    try:
        repo = Repo(src)
    except Exception as e:
        return desc, ['<parse>'], [str(e)]
    for p in sorted(PROPS):
        try:
            ctx, err = run_property(p, 'quick', repo=repo)
        except Exception as e:
            errors.append('%s:%s' % (p, type(e).__name__))
            continue
        if [f for f in ctx.findings if not f.rule.startswith('R-CONV/update-kind')]:
            fired.append(p)
        elif err:
            errors.append(p)
    return desc, fired, errors


def run_difftest(area, checkout, timeout=900):
    dt = os.path.join(ROOT, 'refactors', area, 'difftest.py')
    env = dict(os.environ, PYTHONDONTWRITEBYTECODE='1', PYTHONHASHSEED='0')
    try:
        out = subprocess.run(['/venv/bin/python', dt, checkout], capture_output=True, timeout=timeout, env=env, cwd='/tmp')
        return hashlib.sha1(out.stdout).hexdigest() + (':rc%d' % out.returncode)
    except subprocess.TimeoutExpired:
        return 'timeout'


def make_checkout(k, rel, new_src):
    d = os.path.join(SCRATCH, 'm%d' % k)
    if os.path.exists(d):
        shutil.rmtree(d)
    shutil.copytree(os.path.join(REPO, 'py_stringsimjoin'), os.path.join(d, 'py_stringsimjoin'),
                    ignore=shutil.ignore_patterns('__pycache__', '*.pyc', 'tests'))
    with open(os.path.join(d, rel), 'w') as fh:
        fh.write(new_src)
    return d


def dynamic_verdict(args):
    k, desc, rel, new_src, base_digest = args
    d = make_checkout(k, rel, new_src)
    res = {}
    try:
        for a in difftests_for(rel):
            res[a] = run_difftest(a, d)
            if res[a] != base_digest[a]:
                break      # changed: no need for the second battery
    finally:
        shutil.rmtree(d, ignore_errors=True)
    changed = any(res[a] != base_digest[a] for a in res)
    return desc, changed, res


def main():
    n_sample = int(sys.argv[1]) if len(sys.argv) > 1 else 300
    seed = int(sys.argv[2]) if len(sys.argv) > 2 else 1
    base = Repo.load_sources(REPO)
    allm = []
    for rel in sorted(base):
        if any(s in rel for s in SKIP_FILES) or area_of(rel) is None:
            continue
        # unparse normalises the file: compare against the unparsed original so that only the edit differs
        for desc, new in mutants_of(rel, base[rel]):
            allm.append((desc, rel, new))
    skip_ops = sys.argv[3].split(',') if len(sys.argv) > 3 else []
    if skip_ops:
        allm = [m for m in allm if m[0].split(' ')[1] not in skip_ops]
    random.Random(seed).shuffle(allm)
    sample = allm[:n_sample]
    print('mutants: %d generated, %d sampled' % (len(allm), len(sample)), flush=True)
    os.makedirs(SCRATCH, exist_ok=True)
    # base digests on an unparsed-but-unmutated copy? unparse drops comments only: behaviour identical
    base_dir = make_checkout(10 ** 6, 'py_stringsimjoin/__init__.py', base['py_stringsimjoin/__init__.py'])
    import multiprocessing
    ctxm = multiprocessing.get_context('fork')
    with ctxm.Pool(4) as pool:
        bd = dict(zip(sorted(AREAS), pool.starmap(run_difftest, [(a, base_dir) for a in sorted(AREAS)])))
    shutil.rmtree(base_dir, ignore_errors=True)
    print('base digests', bd, flush=True)
    t0 = time.time()
    with ctxm.Pool(16) as pool:
        stat = pool.map(static_verdict, [(d, r, n, base) for d, r, n in sample], chunksize=2)
    print('static done in %.0fs' % (time.time() - t0), flush=True)
    t0 = time.time()
    with ctxm.Pool(14) as pool:
        dyn = pool.map(dynamic_verdict, [(k, d, r, n, bd) for k, (d, r, n) in enumerate(sample)], chunksize=1)
    print('dynamic done in %.0fs' % (time.time() - t0), flush=True)
    sd = {d: (f, e) for d, f, e in stat}
    rows = []
    cm = {'changed&reported': 0, 'changed&silent': 0, 'same&reported': 0, 'same&silent': 0, 'changed&undecided': 0, 'same&undecided': 0}
    for desc, changed, res in dyn:
        fired, errors = sd[desc]
        verdict = 'reported' if fired else ('undecided' if errors else 'silent')
        cm[('changed' if changed else 'same') + '&' + verdict] += 1
        rows.append({'mutant': desc, 'behaviour_changed': changed, 'static': verdict, 'properties': fired, 'errors': errors, 'digests': res})
    out = os.path.join(ROOT, 'tools', 'triage', 'mutation_study_seed%d.json' % seed)
    with open(out, 'w') as fh:
        json.dump({'sampled': len(sample), 'generated': len(allm), 'seed': seed, 'confusion': cm, 'rows': rows}, fh, indent=1)
    print(json.dumps(cm, indent=1))
    print('--- behaviour changed but every check silent:')
    for r in rows:
        if r['behaviour_changed'] and r['static'] == 'silent':
            print('   ', r['mutant'])
    print('--- digest unchanged but a check reports (equivalent mutant, weak battery, or false alarm):')
    for r in rows:
        if not r['behaviour_changed'] and r['static'] == 'reported':
            print('   ', r['mutant'], r['properties'])
    shutil.rmtree(SCRATCH, ignore_errors=True)


if __name__ == '__main__':
    main()
