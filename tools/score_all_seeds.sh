#!/bin/bash
# re-score every seeded change with the current checks; writes /verif/seeded/SCORES.txt
out=/verif/seeded/SCORES.txt; : > $out
for d in /verif/seeded/C*/; do id=$(basename $d); /verif/tools/score_seed.sh $id $d/patch.diff >> $out 2>&1; done
git -C /repo status --short | head -3
cat $out
