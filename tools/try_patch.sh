#!/bin/bash
# usage: try_patch.sh <patch.diff> [props...]   - apply to /repo, run quick checks, undo
patch=$1; shift
cd /repo && git apply "$patch" || { echo "patch does not apply"; exit 3; }
cd /verif
props=${@:-$(/venv/bin/python -c "import sys; sys.path.insert(0,'/verif'); from ssjlint.props import PROPS; print(' '.join(sorted(PROPS)))")}
for p in $props; do
  out=$(/venv/bin/python -m ssjlint --property $p --no-evidence 2>&1); r=$?
  if [ $r -ne 0 ]; then echo "== $p exit=$r"; echo "$out" | grep -vE "^VIOLATION|rule instances" | cut -c1-260 | head -${HEADN:-4}; fi
done
git -C /repo checkout -- . ; git -C /repo status --short | head -3
