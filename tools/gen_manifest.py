"""Regenerate MANIFEST.json from ssjlint.props (claimed) + NOT_APPLICABLE below."""
import json, os, sys
sys.path.insert(0, os.path.dirname(os.path.dirname(os.path.abspath(__file__))))
from ssjlint.props import PROPS, LEVEL_TEXT, TECHNIQUE, NOT_APPLICABLE

BASE = ("cd /repo && /venv/bin/python -m pytest -ra -q -p no:cacheprovider --timeout=900 "
        "--continue-on-collection-errors")
checks = []
for pid in sorted(PROPS):
    checks.append({
        "property_id": pid,
        "quick_cmd": "/venv/bin/python -m ssjlint --property %s --tier quick" % pid,
        "thorough_cmd": "/venv/bin/python -m ssjlint --property %s --tier thorough" % pid,
        "evidence_file": "/verif/evidence/%s.json" % pid,
        "replay_cmd_template": "/venv/bin/python -m ssjlint --replay {path}",
        "engine": "ssjlint",
        "level_claimed": {
            "category": "other",
            "text": LEVEL_TEXT[pid],
            "design_ref": "DESIGN.md section 5 (%s), rules in section 4" % pid,
        },
        "level_note": "Static necessary-condition analysis of the *_py path only. Trusted: Python's ast as the reading of "
                      "the source; py_stringmatching tokenizers and measures; pandas/numpy facts encoded in the checker; "
                      "the reference formulas of the VLDB'14 survey; the Cython path is not built and not analysed. "
                      "Decides the structural clauses named in the evidence, not the behaviour as a whole.",
        "technique": TECHNIQUE[pid],
    })
man = {
    "version": 1,
    "setup_cmd": "/venv/bin/python -m compileall -q /verif/ssjlint",
    "hooks": {
        "guard": "PY_STRINGSIMJOIN_VERIF",
        "enable": "none needed: the analysis reads the source; no instrumentation exists in /repo",
        "baseline_off_cmd": BASE,
        "source_commits": [],
        "add_only": True,
    },
    "engines": [{
        "name": "ssjlint",
        "path": "/verif/ssjlint",
        "serves_properties": sorted(PROPS),
        "kind_free_text": "repository-specific static analyser on Python's ast: resolved call graph, per-function CFG "
                          "with dominators and reaching definitions, path conditions compared as Boolean functions, "
                          "rational normal forms of the pruning formulas, row-layout abstract interpretation",
    }],
    "checks": checks,
    "not_applicable": [{"property_id": k, "reason": v} for k, v in sorted(NOT_APPLICABLE.items())],
    "notes": "Exit codes: 0 held / 1 VIOLATION / 2 ANALYSIS-ERROR (source no longer recognisable; undecided). "
             "/repo carries only unguarded 'fix:' commits (see known_findings.json); no hooks.",
}
with open(os.path.join(os.path.dirname(os.path.dirname(os.path.abspath(__file__))), 'MANIFEST.json'), 'w') as fh:
    json.dump(man, fh, indent=1)
    fh.write('\n')
print('claimed', sorted(PROPS), 'n/a', sorted(NOT_APPLICABLE))
