# usage: store_seed.py <P> <suffix> <variant A|B> "<confirm line>" "<score line>" [caught_before 0/1] [why]
import sys, json, os, shutil
P, suf, v, confirm, score = sys.argv[1:6]
before = (sys.argv[6] == '1') if len(sys.argv) > 6 else True
why = sys.argv[7] if len(sys.argv) > 7 else ''
src = '/tmp/seed_%s_out' % P
dst = '/verif/seeded/%s%s' % (P, suf)
os.makedirs(dst, exist_ok=True)
shutil.copy(src + '/patch%s.diff' % v, dst + '/patch.diff')
shutil.copy(src + '/demo%s.py' % v, dst + '/demo.py')
m = json.load(open(src + '/meta.json'))[v]
tgt = score.split('TARGET[%s]: ' % P)[1].split(' | all:')[0]
fired = score.split('| all:')[1].split()
meta = {"id": P + suf, "property": P,
        "source": "independent sub-agent given only the property text and a scratch worktree (round 5, single variant)",
        "summary": m.get("summary"), "needs_to_manifest": m.get("needs_to_manifest"), "files": m.get("files"),
        "agent_ran": m.get("ran"),
        "confirmed_by_me": {"how": "tools/verify_seed.sh in a scratch worktree: demo on clean tree, demo with patch, pinned suite with patch", "result": confirm},
        "checks": {"target_property_result": tgt, "properties_reporting": fired, "caught_before_strengthening": before}}
if why: meta["checks"]["why_first_missed"] = why
json.dump(meta, open(dst + '/meta.json', 'w'), indent=1)
print('stored', dst)
