# single-variant prompt (round 5+): usage seed_prompt1.py <P>   (avoid list built from seeded/<P>*/meta.json)
import sys, json, glob, subprocess
pid=sys.argv[1]
prop=open('/tmp/prop_%s.txt'%pid).read()
av=[]
for m in sorted(glob.glob('/verif/seeded/%s*/meta.json'%pid)):
    av.append('- '+json.load(open(m))['summary'][:260])
avoid='\n'.join(av)
two=subprocess.run(['/venv/bin/python','/verif/tools/seed_prompt.py',pid],capture_output=True,text=True).stdout
two=two.replace('produce TWO different, independent changes (variant A and variant B)','produce ONE change (call it variant A)')
two=two.replace('such that each change','such that the change')
two=two.replace('Make A and B genuinely different (different files/mechanisms), not two flavours of the same edit.','ALREADY COVERED by earlier rounds - do NOT produce these or close variations of them; find a different place and mechanism (prefer two cooperating sites, state carried across calls, or an interaction between parameters):\n'+avoid+'\n')
two=two.replace('For each variant write','Write')
two=two.replace(', then `git -C /tmp/seed_%s checkout -- .` to reset before working on variant B'%pid,'')
two=two.replace('patchA.diff, demoA.py, patchB.diff, demoB.py, and meta.json = {"property": "%s", "A": {"summary": "...", "needs_to_manifest": "...", "files": [...], "ran": "commands you ran and what you observed"}, "B": {...}}'%pid,'patchA.diff, demoA.py and meta.json = {"property": "%s", "A": {"summary": "...", "needs_to_manifest": "...", "files": [...], "ran": "commands you ran and what you observed"}}'%pid)
two=two.replace('VERIFY for each variant','VERIFY').replace('summarise both variants in a few lines each','summarise the variant in a few lines')
two+='\nTIME LIMIT: you have about 15 minutes of wall-clock time; keep it simple and finish with verified deliverables rather than exploring widely.'
print(two)
