#!/bin/bash
# usage: score_seed_par.sh <id> <patch>  -> like score_seed.sh but runs the 16 property checks in parallel
id=$1; patch=$2; target=${id:0:3}
cd /repo && git apply "$patch" || { echo "$id APPLY-FAILED"; exit 3; }
cd /verif
d=$(mktemp -d /root/scratch/score.XXXX 2>/dev/null || mktemp -d)
props=$(/venv/bin/python -c "import sys; sys.path.insert(0,'/verif'); from ssjlint.props import PROPS; print(' '.join(sorted(PROPS)))")
for p in $props; do ( /venv/bin/python -m ssjlint --property $p --no-evidence > $d/$p.out 2>&1; echo $? > $d/$p.rc ) & done; wait
git -C /repo checkout -q -- .
fired=""; tgt=""
for p in $props; do r=$(cat $d/$p.rc); if [ "$r" != 0 ]; then
  rule=$(grep -E "^R-|ANALYSIS-ERROR" $d/$p.out | head -1 | cut -c1-90); fired="$fired $p($r)"; [ "$p" = "$target" ] && tgt="exit=$r :: $rule"; fi; done
rm -rf $d
echo "$id TARGET[$target]: ${tgt:-MISSED} | all:$fired"
