"""Program model: parsed modules, functions, classes, resolved imports and calls."""
import ast
import hashlib
import os

from . import AnalysisError, PKG


class ModInfo(object):
    def __init__(self, name, relpath, source):
        self.name = name
        self.relpath = relpath
        self.source = source
        self.tree = ast.parse(source, filename=relpath)
        self.imports = {}     # local name -> ('mod', dotted) | ('obj', dotted module, object name)
        self.funcs = {}       # 'f' or 'C.m' -> FuncInfo
        self.classes = {}     # name -> ClassInfo
        self.globals = {}     # module-level simple assignments: name -> value expr


class ClassInfo(object):
    def __init__(self, module, node):
        self.module = module
        self.node = node
        self.name = node.name
        self.base_names = [ast.unparse(b) for b in node.bases]
        self.methods = {}

    def __repr__(self):
        return '<class %s>' % self.name


class FuncInfo(object):
    outer = None

    def __init__(self, module, node, cls=None):
        self.module = module
        self.node = node
        self.cls = cls
        self.name = node.name
        self.qual = (cls.name + '.' if cls else '') + node.name
        a = node.args
        self.params = [x.arg for x in a.posonlyargs + a.args]
        self.kwonly = [x.arg for x in a.kwonlyargs]
        self.defaults = {}
        pos = a.posonlyargs + a.args
        for p, d in zip(pos[len(pos) - len(a.defaults):], a.defaults):
            self.defaults[p.arg] = d
        for p, d in zip(a.kwonlyargs, a.kw_defaults):
            if d is not None:
                self.defaults[p.arg] = d

    @property
    def where(self):
        return '%s:%s' % (self.module.relpath, self.qual)

    def loc(self, node=None):
        n = node if node is not None else self.node
        return '%s:%d' % (self.module.relpath, getattr(n, 'lineno', self.node.lineno))

    def __repr__(self):
        return '<func %s>' % self.where


def _is_test_path(rel):
    parts = rel.split('/')
    return 'tests' in parts


class Repo(object):
    """All non-test modules of the package, parsed. Built from a directory or from an
    in-memory {relpath: source} map (used by the self-validation variants)."""

    def __init__(self, sources):
        self.sources = dict(sources)
        self.modules = {}       # dotted name -> ModInfo
        self.by_path = {}       # relpath -> ModInfo
        for rel in sorted(sources):
            name = rel[:-3].replace('/', '.')
            if name.endswith('.__init__'):
                name = name[:-len('.__init__')]
            try:
                m = ModInfo(name, rel, sources[rel])
            except SyntaxError as e:
                raise AnalysisError('cannot parse %s: %s' % (rel, e))
            self.modules[name] = m
            self.by_path[rel] = m
        from .canon import canonicalise
        self.canon_notes = canonicalise({rel: m.tree for rel, m in self.by_path.items()})
        for m in self.modules.values():
            m.repo = self
            self._index(m)
        self._param_types = None
        self._nested = {}
        self._ltypes = {}
        self._rcache = {}

    # ------------------------------------------------------------------ loading
    @classmethod
    def load_sources(cls, root):
        out = {}
        base = os.path.join(root, PKG)
        if not os.path.isdir(base):
            raise AnalysisError('package directory %s not found' % base)
        for d, dirs, files in os.walk(base):
            dirs.sort()
            for f in sorted(files):
                if not f.endswith('.py'):
                    continue
                p = os.path.join(d, f)
                rel = os.path.relpath(p, root)
                if _is_test_path(rel):
                    continue
                with open(p, encoding='utf-8') as fh:
                    out[rel] = fh.read()
        return out

    @classmethod
    def from_dir(cls, root):
        return cls(cls.load_sources(root))

    @classmethod
    def from_git(cls, root, rev):
        """Sources of a committed revision (development aid: run the rules on the pinned tree)."""
        import subprocess
        names = subprocess.check_output(['git', '-C', root, 'ls-tree', '-r', '--name-only', rev, PKG + '/'],
                                        text=True).split('\n')
        out = {}
        for rel in names:
            if rel.endswith('.py') and not _is_test_path(rel):
                out[rel] = subprocess.check_output(['git', '-C', root, 'show', '%s:%s' % (rev, rel)], text=True)
        return cls(out)

    def digest(self):
        h = hashlib.sha256()
        for rel in sorted(self.sources):
            h.update(rel.encode())
            h.update(self.sources[rel].encode())
        return h.hexdigest()[:16]

    # ------------------------------------------------------------------ indexing
    def _index(self, m):
        for n in m.tree.body:
            if isinstance(n, ast.ImportFrom) and n.module and n.level == 0:
                for a in n.names:
                    m.imports[a.asname or a.name] = ('obj', n.module, a.name)
            elif isinstance(n, ast.Import):
                for a in n.names:
                    m.imports[a.asname or a.name.split('.')[0]] = ('mod', a.name)
            elif isinstance(n, ast.FunctionDef):
                m.funcs[n.name] = FuncInfo(m, n)
            elif isinstance(n, ast.ClassDef):
                c = ClassInfo(m, n)
                m.classes[n.name] = c
                for b in n.body:
                    if isinstance(b, ast.FunctionDef):
                        f = FuncInfo(m, b, c)
                        c.methods[b.name] = f
                        m.funcs[c.name + '.' + b.name] = f
            elif isinstance(n, ast.Assign) and len(n.targets) == 1 and isinstance(n.targets[0], ast.Name):
                m.globals[n.targets[0].id] = n.value
        # imports nested in functions (the public wrappers import lazily)
        for n in ast.walk(m.tree):
            if isinstance(n, ast.FunctionDef):
                for s in ast.walk(n):
                    if isinstance(s, ast.ImportFrom) and s.module and s.level == 0:
                        for a in s.names:
                            m.imports.setdefault(a.asname or a.name, ('obj', s.module, a.name))

    # ------------------------------------------------------------------ lookup
    def mod(self, relpath):
        m = self.by_path.get(relpath)
        if m is None:
            raise AnalysisError('anchor module %s not found' % relpath)
        return m

    def fn(self, relpath, qual, raw=False):
        m = self.mod(relpath)
        f = m.funcs.get(qual)
        if f is None:
            raise AnalysisError('anchor function %s:%s not found' % (relpath, qual))
        if not raw and qual.endswith('.build') and '/index/' in relpath:
            # an index build() that delegates pieces of its row loop to private helper methods is analysed with those
            # helpers inlined (normalise.inline_private_methods); on a build() without such calls this is the identity
            cache = self.__dict__.setdefault('_norm_build', {})
            if (relpath, qual) not in cache:
                cache[(relpath, qual)] = None
                from .normalise import inline_private_methods
                try:
                    r2 = inline_private_methods(self, relpath, qual)
                except AnalysisError:
                    r2 = None
                cache[(relpath, qual)] = r2.fn(relpath, qual, raw=True) if r2 is not None else None
            if cache[(relpath, qual)] is not None:
                return cache[(relpath, qual)]
        if not raw and qual == 'series_to_str' and relpath.endswith('utils/converter.py'):
            # delivery of the converted column factored into a private helper: analysed inlined
            cache = self.__dict__.setdefault('_norm_conv', {})
            if (relpath, qual) not in cache:
                cache[(relpath, qual)] = None
                from .normalise import normalised_repo
                try:
                    def deliverer(nm):
                        h = m.funcs.get(nm)
                        if h is None or not nm.startswith('_'):
                            return False
                        body = [x for x in h.node.body if not (isinstance(x, ast.Expr) and isinstance(x.value, ast.Constant))]
                        only_checks = all(isinstance(x, ast.If) and not x.orelse and all(isinstance(y, ast.Raise) for y in x.body)
                                          for x in body)
                        return not only_checks
                    r2 = normalised_repo(self, relpath, qual, only=deliverer)
                    cache[(relpath, qual)] = r2.fn(relpath, qual, raw=True) if r2 is not None else None
                except AnalysisError:
                    cache[(relpath, qual)] = None
            if cache[(relpath, qual)] is not None:
                return cache[(relpath, qual)]
        if not raw and qual.endswith('.find_candidates') and '/filter/' in relpath:
            # a candidate set written as set(chain.from_iterable(<generator>)) is analysed as the loop it stands for
            cache = self.__dict__.setdefault('_norm_fc', {})
            if (relpath, qual) not in cache:
                cache[(relpath, qual)] = None
                from .normalise import loopified
                try:
                    cache[(relpath, qual)] = loopified(self, relpath, qual, raw=True)
                except AnalysisError:
                    cache[(relpath, qual)] = None
            if cache[(relpath, qual)] is not None:
                return cache[(relpath, qual)]
        return f

    def has_fn(self, relpath, qual):
        m = self.by_path.get(relpath)
        return m is not None and qual in m.funcs

    def cls(self, relpath, name):
        m = self.mod(relpath)
        c = m.classes.get(name)
        if c is None:
            raise AnalysisError('anchor class %s:%s not found' % (relpath, name))
        return c

    def all_funcs(self):
        for m in self.modules.values():
            for f in m.funcs.values():
                yield f

    def lookup_name(self, module, name):
        """Resolve a bare name used in `module` to FuncInfo / ClassInfo / ('global', mod, expr) / None."""
        if name in module.funcs and '.' not in name:
            return module.funcs[name]
        if name in module.classes:
            return module.classes[name]
        imp = module.imports.get(name)
        if imp and imp[0] == 'obj':
            tgt = self.modules.get(imp[1])
            if tgt is not None:
                if imp[2] in tgt.funcs:
                    return tgt.funcs[imp[2]]
                if imp[2] in tgt.classes:
                    return tgt.classes[imp[2]]
                if imp[2] in tgt.globals:
                    return ('global', tgt, imp[2])
                # re-export through another import
                if imp[2] in tgt.imports:
                    return self.lookup_name(tgt, imp[2])
        if name in module.globals:
            return ('global', module, name)
        return None

    def namedtuple_fields(self, module, name, func=None):
        """field names when `name` denotes a namedtuple class (module-level, imported, or bound once inside func)"""
        expr = None
        r = self.lookup_name(module, name)
        if isinstance(r, tuple) and r[0] == 'global':
            expr = r[1].globals.get(r[2])
        if expr is None and func is not None:
            vals = [n.value for n in ast.walk(func.node) if isinstance(n, ast.Assign) and len(n.targets) == 1
                    and isinstance(n.targets[0], ast.Name) and n.targets[0].id == name]
            if len(vals) == 1:
                expr = vals[0]
        if not (isinstance(expr, ast.Call) and U(expr.func).split('.')[-1] == 'namedtuple' and len(expr.args) >= 2):
            return None
        spec = expr.args[1]
        if isinstance(spec, ast.Constant) and isinstance(spec.value, str):
            return spec.value.replace(',', ' ').split()
        if isinstance(spec, (ast.List, ast.Tuple)) and all(isinstance(e, ast.Constant) and isinstance(e.value, str) for e in spec.elts):
            return [e.value for e in spec.elts]
        return None

    def find_method(self, cls, name):
        seen = set()
        todo = [cls]
        while todo:
            c = todo.pop(0)
            if c.name in seen:
                continue
            seen.add(c.name)
            if name in c.methods:
                return c.methods[name]
            for b in c.base_names:
                r = self.lookup_name(c.module, b)
                if isinstance(r, ClassInfo):
                    todo.append(r)
        return None

    def class_chain(self, c):
        out = [c]
        cur = c
        while True:
            nxt = None
            for bn in cur.base_names:
                r = self.lookup_name(cur.module, bn)
                if isinstance(r, ClassInfo) and r not in out:
                    nxt = r
                    break
            if nxt is None:
                return out
            out.append(nxt)
            cur = nxt

    def subclasses(self, cls):
        out = []
        for m in sorted(self.modules.values(), key=lambda x: x.name):
            for c in m.classes.values():
                if c is not cls and cls in self.class_chain(c):
                    out.append(c)
        return out

    # ------------------------------------------------------------------ types
    def local_types(self, f):
        """var name -> ClassInfo for `v = Class(...)` locals, `self`, and parameters whose class
        is known from the actual arguments at the call sites."""
        if id(f) in self._ltypes:
            return self._ltypes[id(f)][1]
        ty = {}
        if f.cls is not None and f.params and f.params[0] == 'self':
            ty['self'] = f.cls
        for n in ast.walk(f.node):
            if isinstance(n, ast.Assign) and len(n.targets) == 1 and isinstance(n.targets[0], ast.Name) \
                    and isinstance(n.value, ast.Call) and isinstance(n.value.func, ast.Name):
                r = self.lookup_name(f.module, n.value.func.id)
                if isinstance(r, ClassInfo):
                    ty[n.targets[0].id] = r
        for p, c in self.param_types().get(f.where, {}).items():
            ty.setdefault(p, c)
        self._ltypes[id(f)] = (f, ty)
        return ty

    def param_types(self):
        if self._param_types is not None:
            return self._param_types
        self._param_types = {}
        for _ in range(3):
            changed = False
            for f in list(self.all_funcs()):
                ty = {}
                if f.cls is not None and f.params and f.params[0] == 'self':
                    ty['self'] = f.cls
                for n in ast.walk(f.node):
                    if isinstance(n, ast.Assign) and len(n.targets) == 1 and isinstance(n.targets[0], ast.Name) \
                            and isinstance(n.value, ast.Call) and isinstance(n.value.func, ast.Name):
                        r = self.lookup_name(f.module, n.value.func.id)
                        if isinstance(r, ClassInfo):
                            ty[n.targets[0].id] = r
                ty.update({k: v for k, v in self._param_types.get(f.where, {}).items() if k not in ty})
                for call in [n for n in ast.walk(f.node) if isinstance(n, ast.Call)]:
                    r = self._resolve(f, call, ty)
                    if r is None:
                        continue
                    callee, kind, args, kws = r
                    b = bind(callee, kind, args, kws)
                    for p, a in b.items():
                        if isinstance(a, ast.Name) and a.id in ty:
                            d = self._param_types.setdefault(callee.where, {})
                            if d.get(p) is not ty[a.id]:
                                # a parameter receiving several classes keeps the first common base: here
                                # all filter classes share `Filter`; we only record when unambiguous
                                if p in d and d[p] is not ty[a.id]:
                                    d[p] = _join_class(self, d[p], ty[a.id])
                                else:
                                    d[p] = ty[a.id]
                                changed = True
            if not changed:
                break
        return self._param_types

    # ------------------------------------------------------------------ calls
    def _resolve(self, f, call, ty):
        fn = call.func
        args, kws = call.args, call.keywords
        # Parallel(...)(delayed(F)(args) for ...) is handled by callers through iter_calls()
        if isinstance(fn, ast.Call) and isinstance(fn.func, ast.Name) and fn.func.id == 'delayed' and fn.args:
            inner = ast.Call(func=fn.args[0], args=args, keywords=kws)
            ast.copy_location(inner, call)
            return self._resolve(f, inner, ty)
        if isinstance(fn, ast.Name):
            # `dw = delayed(W)` bound once, then `dw(args)`
            alias = self._delayed_alias(f, fn.id)
            if alias is not None:
                inner = ast.Call(func=alias, args=args, keywords=kws)
                ast.copy_location(inner, call)
                return self._resolve(f, inner, ty)
            pa = self._partial_alias(f, fn.id)
            if pa is not None:
                # `g = partial(F, a.., k=v..)` bound once, then `g(b.., m=w..)` is F(a.., b.., k=v.., m=w..)
                inner = ast.Call(func=pa.args[0], args=list(pa.args[1:]) + list(args), keywords=list(pa.keywords) + list(kws))
                ast.copy_location(inner, call)
                return self._resolve(f, inner, ty)
            nested = self.nested_funcs(f).get(fn.id)
            if nested is not None:
                return nested, 'func', args, kws
            r = self.lookup_name(f.module, fn.id)
            if isinstance(r, FuncInfo):
                return r, 'func', args, kws
            if isinstance(r, ClassInfo):
                init = self.find_method(r, '__init__')
                if init is not None:
                    return init, 'ctor', args, kws
            return None
        if isinstance(fn, ast.Attribute):
            # super(...).__init__(...)
            if isinstance(fn.value, ast.Call) and isinstance(fn.value.func, ast.Name) and fn.value.func.id == 'super' \
                    and f.cls is not None:
                for b in f.cls.base_names:
                    r = self.lookup_name(f.cls.module, b)
                    if isinstance(r, ClassInfo):
                        m = self.find_method(r, fn.attr)
                        if m is not None:
                            return m, 'method', args, kws
                return None
            if isinstance(fn.value, ast.Name) and fn.value.id in ty:
                m = self.find_method(ty[fn.value.id], fn.attr)
                if m is not None:
                    return m, 'method', args, kws
                # method defined only on subclasses (e.g. Filter.filter_pair): return all candidates' first
                subs = [self.find_method(c, fn.attr) for c in self.subclasses(ty[fn.value.id])]
                subs = [s for s in subs if s is not None]
                if subs:
                    return subs[0], 'method', args, kws
        return None

    def _delayed_alias(self, f, name):
        vals = []
        for n in ast.walk(f.node):
            if isinstance(n, ast.Assign) and any(isinstance(t, ast.Name) and t.id == name for t in n.targets):
                vals.append(n.value)
        if len(vals) == 1 and isinstance(vals[0], ast.Call) and isinstance(vals[0].func, ast.Name) \
                and vals[0].func.id == 'delayed' and len(vals[0].args) == 1:
            return vals[0].args[0]
        return None

    def _partial_alias(self, f, name):
        vals = []
        for n in ast.walk(f.node):
            if isinstance(n, ast.Assign) and any(isinstance(t, ast.Name) and t.id == name for t in n.targets):
                vals.append(n.value)
        if len(vals) == 1 and isinstance(vals[0], ast.Call) and U(vals[0].func) in ('partial', 'functools.partial') \
                and vals[0].args and not any(isinstance(a, ast.Starred) for a in vals[0].args) \
                and all(k.arg for k in vals[0].keywords):
            return vals[0]
        return None

    def nested_funcs(self, f):
        """functions defined directly inside f's body (closures): name -> FuncInfo (outer = f)"""
        k = id(f)
        hit = self._nested.get(k)
        if hit is not None and hit[0] is f:
            return hit[1]
        out = {}
        for st in ast.walk(f.node):
            if isinstance(st, ast.FunctionDef) and st is not f.node:
                nf = FuncInfo(f.module, st, None)
                nf.outer = f
                nf.qual = f.qual + '.<locals>.' + st.name
                out[st.name] = nf
        self._nested[k] = (f, out)
        return out

    def resolve_call(self, f, call):
        """-> (callee FuncInfo, kind, bound {param: arg expr}) or None for calls outside the repo."""
        k = (id(f), id(call))
        hit = self._rcache.get(k)
        if hit is not None and hit[0] is call:
            return hit[1]
        r = self._resolve(f, call, self.local_types(f))
        if r is None:
            out = None
        else:
            callee, kind, args, kws = r
            out = (callee, kind, bind(callee, kind, self._splice_starred(f, args), kws))
        self._rcache[k] = (call, out)
        return out

    def _splice_starred(self, f, args):
        """`g(a, *pack, b)`, `g(a, *(pack + (x,)))`: a pack is a local bound exactly once in f to a tuple/list display
        (possibly a concatenation of such) and never mutated; its elements are the arguments"""
        if not any(isinstance(a, ast.Starred) for a in args):
            return args

        def elements(e, depth=0):
            if depth > 4:
                return None
            if isinstance(e, (ast.Tuple, ast.List)):
                if any(isinstance(x, ast.Starred) for x in e.elts):
                    return None
                return list(e.elts)
            if isinstance(e, ast.BinOp) and isinstance(e.op, ast.Add):
                l, r = elements(e.left, depth + 1), elements(e.right, depth + 1)
                return l + r if l is not None and r is not None else None
            if isinstance(e, ast.Name):
                nm = e.id
                stores = [n for n in ast.walk(f.node) if isinstance(n, ast.Name) and n.id == nm and isinstance(n.ctx, (ast.Store, ast.Del))]
                defs = [st for st in ast.walk(f.node) if isinstance(st, ast.Assign) and len(st.targets) == 1
                        and isinstance(st.targets[0], ast.Name) and st.targets[0].id == nm]
                mutated = any(isinstance(n, ast.Attribute) and isinstance(n.value, ast.Name) and n.value.id == nm
                              and n.attr in ('append', 'extend', 'insert', 'pop', 'remove', 'clear', 'sort', 'reverse')
                              for n in ast.walk(f.node))
                if len(stores) == 1 and len(defs) == 1 and not mutated and nm not in f.params:
                    return elements(defs[0].value, depth + 1)
            return None
        out = []
        for a in args:
            if isinstance(a, ast.Starred):
                el = elements(a.value)
                if el is not None:
                    out.extend(el)
                    continue
            out.append(a)
        return out

    def resolve_call_all(self, f, call):
        """Like resolve_call but returns every candidate when the receiver is a base class."""
        ty = self.local_types(f)
        fn = call.func
        if isinstance(fn, ast.Attribute) and isinstance(fn.value, ast.Name) and fn.value.id in ty:
            c = ty[fn.value.id]
            m = self.find_method(c, fn.attr)
            if m is None:
                out = []
                for s in self.subclasses(c):
                    sm = self.find_method(s, fn.attr)
                    if sm is not None and sm not in [o[0] for o in out]:
                        out.append((sm, 'method', bind(sm, 'method', call.args, call.keywords)))
                return out
        r = self.resolve_call(f, call)
        return [r] if r else []

    def calls_in(self, f):
        """All Call nodes in f's own body (nested defs excluded), in source order."""
        out = []

        def walk(n):
            for c in ast.iter_child_nodes(n):
                if isinstance(c, (ast.FunctionDef, ast.ClassDef, ast.Lambda)):
                    continue
                walk(c)
                if isinstance(c, ast.Call):
                    out.append(c)
        for st in f.node.body:
            walk(ast.Module(body=[st], type_ignores=[]))
        out.sort(key=lambda c: (c.lineno, c.col_offset))
        return out


def _join_class(repo, a, b):
    cb = repo.class_chain(b)
    for x in repo.class_chain(a):
        if x in cb:
            return x
    return a


def bind(callee, kind, args, kws):
    """Positional + keyword + default binding. Returns ordered {param: expr}; '*' entries are skipped."""
    params = list(callee.params)
    if kind in ('ctor', 'method') and params and params[0] == 'self':
        params = params[1:]
    out = {}
    for p in params + callee.kwonly:
        if p in callee.defaults:
            out[p] = callee.defaults[p]
    for p, a in zip(params, args):
        if isinstance(a, ast.Starred):
            break
        out[p] = a
    for kw in kws:
        if kw.arg:
            out[kw.arg] = kw.value
    ordered = {}
    for p in params + callee.kwonly:
        if p in out:
            ordered[p] = out[p]
    return ordered


def U(node):
    return ast.unparse(node)
