"""Kill matrix and silence battery: single edits of today's sources (anchor text must match once).

KILL:   (id, [(file, old, new[, count])], {properties broken}, note)
SILENT: (id, [(file, old, new[, count])], note)  - behaviour preserving"""

FU = 'filter/filter_utils.py'
GH = 'utils/generic_helper.py'
PF = 'filter/position_filter.py'
SF = 'filter/size_filter.py'
XF = 'filter/prefix_filter.py'
OF = 'filter/overlap_filter.py'
UF = 'filter/suffix_filter.py'
SSJ = 'join/set_sim_join.py'
JJ = 'join/jaccard_join_py.py'
CJ = 'join/cosine_join_py.py'
DJ = 'join/dice_join_py.py'
OCJ = 'join/overlap_coefficient_join_py.py'
OJ = 'join/overlap_join_py.py'
EJ = 'join/edit_distance_join_py.py'
MV = 'utils/missing_value_handler.py'
AM = 'matcher/apply_matcher.py'
FB = 'filter/filter.py'
VA = 'utils/validation.py'
TO = 'utils/token_ordering.py'
SIMF = 'utils/simfunctions.py'
PI = 'index/position_index.py'
XI = 'index/prefix_index.py'
SI = 'index/size_index.py'
II = 'index/inverted_index.py'
CV = 'utils/converter.py'
PR = 'profiler/profiler.py'

KILL = [
    # ---------------------------------------------------------------- R-FORM
    ('form-drop-round-lower-jaccard', [(FU, "return int(ceil(round(threshold * num_tokens, 4)))", "return int(ceil(threshold * num_tokens))")],
     {'C01', 'C04', 'C13'}, 'size lower bound without 4-decimal slack'),
    ('form-floor-lower-cosine', [(FU, "return int(ceil(round(threshold * threshold * num_tokens, 4)))", "return int(floor(round(threshold * threshold * num_tokens, 4)))")],
     {'C14'}, 'looser lower bound: safe but not tight'),
    ('form-ceil-upper-jaccard', [(FU, "return int(floor(round(num_tokens / threshold, 4)))", "return int(floor(round(num_tokens / threshold, 4))) - 1")],
     {'C01', 'C04', 'C13'}, 'upper bound one too small'),
    ('form-upper-plus1-dice', [(FU, "((2 - threshold) / threshold) * num_tokens, 4)))", "((2 - threshold) / threshold) * num_tokens, 4))) + 1")],
     {'C14'}, 'upper bound looser'),
    ('form-prefix-off-by-one', [(FU, "return int(num_tokens - ceil(round(threshold * num_tokens, 4)) + 1)", "return int(num_tokens - ceil(round(threshold * num_tokens, 4)))")],
     {'C01', 'C04', 'C13'}, 'prefix one token short'),
    ('form-prefix-drop-round', [(FU, "return int(num_tokens - ceil(round(threshold * num_tokens, 4)) + 1)", "return int(num_tokens - ceil(threshold * num_tokens) + 1)")],
     {'C01', 'C04', 'C13'}, 'the original defect D0'),
    ('form-cosine-t-not-squared', [(FU, "                   ceil(round(threshold * threshold * num_tokens, 4)) + 1)", "                   ceil(round(threshold * num_tokens, 4)) + 1)")],
     {'C01', 'C04'}, 'cosine prefix with t instead of t^2'),
    ('form-overlap-threshold-dice', [(FU, "return ceil(round((threshold / 2) * (l_num_tokens + r_num_tokens), 4))", "return ceil(round(threshold * (l_num_tokens + r_num_tokens), 4))")],
     {'C01', 'C04'}, 'required overlap doubled'),
    ('form-edit-prefix', [(FU, "return min(tokenizer.qval * threshold + 1, num_tokens)", "return min(tokenizer.qval * threshold, num_tokens)")],
     {'C03', 'C04'}, 'edit prefix q*t instead of q*t+1'),
    ('form-edit-lower', [(FU, "        return num_tokens - threshold\n", "        return num_tokens - threshold + 1\n")],
     {'C04'}, 'edit size lower bound too high'),
    ('form-swap-jaccard-dice', [(FU, "    elif sim_measure_type == 'JACCARD':\n        return int(ceil(round(threshold * num_tokens, 4)))", "    elif sim_measure_type == 'JACCARD':\n        return int(ceil(round((threshold / (2 - threshold)) * num_tokens, 4)))")],
     {'C14'}, 'jaccard lower bound uses dice core (looser)'),
    # ---------------------------------------------------------------- R-SPLIT
    ('split-whole-table-parallel', [(JJ, "ltable_array, r_splits[job_index],", "ltable_array, rtable_array,")],
     {'C10', 'C01'}, 'every job joins the whole right table: duplicates'),
    ('split-left-table', [(JJ, "r_splits = split_table(rtable_array, n_jobs)", "r_splits = split_table(ltable_array, n_jobs)"),
                          (JJ, "ltable_array, r_splits[job_index],", "r_splits[job_index], rtable_array,")],
     {'C10', 'C01'}, 'left table split: pairs across chunks lost'),
    ('split-gap', [(GH, "int(round((i+1)*split_size))])", "int(round((i+1)*split_size)) - 1])")],
     {'C10', 'C01'}, 'last row of each chunk dropped'),
    ('split-floor-vs-round', [(GH, "splits.append(table[int(round(i*split_size)):", "splits.append(table[int(i*split_size):")],
     {'C10'}, 'lower uses floor, upper uses round: overlap or gap'),
    ('split-range-minus1', [(CJ, "for job_index in range(n_jobs))", "for job_index in range(n_jobs - 1))")],
     {'C10', 'C01'}, 'last split never processed'),
    ('split-arg-differs', [(DJ, "                                          threshold, comp_op, allow_empty,\n                                          l_out_attrs, r_out_attrs,\n                                          l_out_prefix, r_out_prefix,\n                                          out_sim_score,\n", "                                          threshold, comp_op, True,\n                                          l_out_attrs, r_out_attrs,\n                                          l_out_prefix, r_out_prefix,\n                                          out_sim_score,\n")],
     {'C10'}, 'parallel twin ignores allow_empty'),
    ('split-candset-matcher-threshold', [(AM, "                                      threshold, comp_op, allow_missing,\n                                      l_out_attrs, r_out_attrs,\n                                      l_out_prefix, r_out_prefix,\n                                      out_sim_score,\n", "                                      threshold, comp_op, False,\n                                      l_out_attrs, r_out_attrs,\n                                      l_out_prefix, r_out_prefix,\n                                      out_sim_score,\n")],
     {'C10', 'C05'}, 'parallel matcher drops allow_missing'),
    # ---------------------------------------------------------------- R-SHAPE
    ('shape-missing-score', [(MV, "            if out_sim_score:\n                output_row.append(np.NaN)\n\n            output_rows.append(output_row)\n\n        if show_progress:\n            prog_bar.update()\n\n    # For each rtable", "            output_rows.append(output_row)\n\n        if show_progress:\n            prog_bar.update()\n\n    # For each rtable")],
     {'C08', 'C11'}, 'the original defect D1'),
    ('shape-swap-key-index', [(SSJ, "                        output_row = [ltable[cand][l_key_attr_index],\n                                      r_row[r_key_attr_index]]", "                        output_row = [ltable[cand][l_join_attr_index],\n                                      r_row[r_key_attr_index]]")],
     {'C02', 'C11'}, 'join value emitted in the key column when no output attrs'),
    ('shape-out-attrs-swapped', [(GH, "        for l_attr_index in l_out_attrs_indices:\n            output_row.append(l_row[l_attr_index])", "        for l_attr_index in l_out_attrs_indices:\n            output_row.append(r_row[l_attr_index])")],
     {'C11', 'C02'}, 'left attributes read from the right row'),
    ('shape-header-order', [(GH, "    output_header.append(l_out_prefix + l_key_attr)\n\n    output_header.append(r_out_prefix + r_key_attr)", "    output_header.append(r_out_prefix + r_key_attr)\n\n    output_header.append(l_out_prefix + l_key_attr)")],
     {'C11'}, 'header key columns swapped'),
    ('shape-id-before-missing', [(JJ, "        output_table = pd.concat([output_table, missing_pairs])\n\n    # add an id column named '_id' to the output table.\n    output_table.insert(0, '_id', range(0, len(output_table)))\n", "        output_table.insert(0, '_id', range(0, len(output_table)))\n        output_table = pd.concat([output_table, missing_pairs])\n    else:\n        output_table.insert(0, '_id', range(0, len(output_table)))\n")],
     {'C10', 'C11'}, 'rows numbered before the missing pairs are appended'),
    ('shape-missing-flag-false', [(OCJ, "                                            l_out_prefix, r_out_prefix,\n                                            out_sim_score, show_progress)\n        output_table = pd.concat([output_table, missing_pairs])", "                                            l_out_prefix, r_out_prefix,\n                                            False, show_progress)\n        output_table = pd.concat([output_table, missing_pairs])")],
     {'C08', 'C11'}, 'missing pairs frame lacks the score column the join frame has'),
    ('shape-matcher-id', [(AM, "                output_row.insert(0, candset_row[0])", "                output_row.append(candset_row[0])")],
     {'C05', 'C11'}, '_id cell at the end of the row'),
    # ---------------------------------------------------------------- R-FLAG
    ('flag-no-restore', [(JJ, "    if revert_tokenizer_return_set_flag:\n        tokenizer.set_return_set(False)\n", "    pass\n")],
     {'C12'}, 'tokenizer left in set mode'),
    ('flag-restore-wrong-literal', [(EJ, "    if revert_tokenizer_return_set_flag:\n        tokenizer.set_return_set(True)", "    if revert_tokenizer_return_set_flag:\n        tokenizer.set_return_set(False)")],
     {'C12', 'C03'}, 'edit distance join restores to the wrong mode'),
    ('flag-early-return', [(CJ, "    # computes the actual number of jobs to launch.\n", "    if len(rtable_array) == 0:\n        return pd.DataFrame()\n    # computes the actual number of jobs to launch.\n")],
     {'C12'}, 'early return skips the restore'),
    ('flag-flip-inverted', [(DJ, "    if not tokenizer.get_return_set():\n        tokenizer.set_return_set(True)", "    if tokenizer.get_return_set():\n        tokenizer.set_return_set(True)")],
     {'C12'}, 'bag tokenizer never switched'),
    ('flag-validate-after-flip', [(OCJ, "    # check if the input threshold is valid\n    validate_threshold(threshold, 'OVERLAP_COEFFICIENT')\n", ""),
                                  (OCJ, "    # remove redundant attrs from output attrs.\n", "    validate_threshold(threshold, 'OVERLAP_COEFFICIENT')\n    # remove redundant attrs from output attrs.\n")],
     {'C12', 'C15'}, 'threshold validated after the flip: rejected call leaves set mode'),
    ('flag-overlap-join-no-finally', [(OJ, "    try:\n", "    if True:\n"), (OJ, "    finally:\n", "    if True:\n")],
     {'C12', 'C15'}, 'the original defect D2'),
    ('flag-filter-writes-tokenizer', [(SF, "        l_num_tokens = len(self.tokenizer.tokenize(lstring))", "        self.tokenizer.set_return_set(True)\n        l_num_tokens = len(self.tokenizer.tokenize(lstring))")],
     {'C12'}, 'a filter silently switches the caller tokenizer'),
    # ---------------------------------------------------------------- R-VALID
    ('valid-drop-key-check', [(JJ, "    validate_key_attr(r_key_attr, rtable, 'right table')\n", "")],
     {'C15'}, 'right key no longer validated'),
    ('valid-wrong-table', [(XF, "        validate_attr(r_filter_attr, rtable.columns,\n                      'filter attribute', 'right table')", "        validate_attr(r_filter_attr, ltable.columns,\n                      'filter attribute', 'right table')")],
     {'C15'}, 'right filter attribute looked up in the left table'),
    ('valid-conditional', [(SF, "        validate_key_attr(l_key_attr, ltable, 'left table')\n        validate_key_attr(r_key_attr, rtable, 'right table')\n\n        # remove redundant attrs from output attrs.", "        if self.allow_missing:\n            validate_key_attr(l_key_attr, ltable, 'left table')\n        validate_key_attr(r_key_attr, rtable, 'right table')\n\n        # remove redundant attrs from output attrs.")],
     {'C15'}, 'key check only under a flag'),
    ('valid-threshold-literal', [(CJ, "validate_threshold(threshold, 'COSINE')", "validate_threshold(threshold, 'OVERLAP')")],
     {'C15'}, 'cosine join validates the threshold with the OVERLAP range'),
    ('valid-matcher-compop-gone', [(AM, "    validate_comp_op(comp_op)\n", "")],
     {'C15'}, 'apply_matcher no longer rejects unknown operators up front'),
    ('valid-type-before-attr', [(PF, "        validate_attr(l_filter_attr, ltable.columns,\n                      'filter attribute', 'left table')\n", ""),
                                (PF, "        # check if the output attributes exist", "        validate_attr(l_filter_attr, ltable.columns,\n                      'filter attribute', 'left table')\n        # check if the output attributes exist")],
     {'C15'}, 'ltable[l_filter_attr] read before the attribute was validated: KeyError instead of AssertionError'),
    # ---------------------------------------------------------------- R-VERIFY / R-OPMAP / R-NI
    ('verify-swap-args', [(SSJ, "if comp_fn(sim_score, threshold):", "if comp_fn(threshold, sim_score):")],
     {'C02', 'C01', 'C13'}, 'comparator arguments swapped'),
    ('verify-round-3', [(SSJ, "sim_score = round(sim_fn(l_ordered_tokens, r_ordered_tokens), 4)", "sim_score = round(sim_fn(l_ordered_tokens, r_ordered_tokens), 3)")],
     {'C02'}, 'score rounded to 3 decimals'),
    ('verify-emit-unrounded', [(SSJ, "                        output_row.append(sim_score)", "                        output_row.append(sim_fn(l_ordered_tokens, r_ordered_tokens))")],
     {'C02'}, 'compared value is rounded, emitted value is not'),
    ('verify-no-check', [(OCJ, "            if comp_fn(sim_score, threshold):\n", "            if True:\n")],
     {'C02'}, 'every candidate is emitted'),
    ('verify-fixed-operator', [(EJ, "    comp_fn = COMP_OP_MAP[comp_op]", "    comp_fn = COMP_OP_MAP['<=']")],
     {'C03', 'C13'}, 'operator ignored'),
    ('verify-wrong-tokens', [(SSJ, "sim_fn(l_ordered_tokens, r_ordered_tokens), 4)", "sim_fn(r_ordered_tokens, r_ordered_tokens), 4)")],
     {'C02'}, 'similarity of the right tokens with themselves'),
    ('verify-edit-window-strict', [(EJ, "if r_len - threshold <= l_join_attr_list[cand] <= r_len + threshold:", "if r_len - threshold < l_join_attr_list[cand] <= r_len + threshold:")],
     {'C03'}, 'length window exclusive at the lower end'),
    ('verify-edit-no-floor', [(EJ, "    threshold = int(floor(threshold))\n", "")],
     {'C03'}, 'non-integral threshold reaches the prefix arithmetic'),
    ('opmap-swap', [(GH, "'>=': operator.ge,\n               '>': operator.gt,", "'>=': operator.gt,\n               '>': operator.ge,")],
     {'C02', 'C05', 'C13'}, 'operator table swapped'),
    ('simfun-swap', [(SIMF, "        return Dice().get_raw_score", "        return Jaccard().get_raw_score")],
     {'C02'}, 'dice join verifies with jaccard'),
    ('matcher-score-swapped-args', [(AM, "sim_score = sim_function(l_apply_col_value, r_apply_col_value)", "sim_score = sim_function(r_apply_col_value, l_apply_col_value)")],
     {'C05'}, 'asymmetric similarity functions see swapped arguments'),
    ('ni-operator-into-filter', [(SSJ, "    pos_filter = PositionFilter(tokenizer, sim_measure_type, threshold)", "    pos_filter = PositionFilter(tokenizer, sim_measure_type, threshold if comp_op != '>' else threshold + 0.0001)")],
     {'C13'}, 'pruning depends on the operator'),
    # ---------------------------------------------------------------- R-CAND / R-ONCE
    ('cand-range-exclusive', [(SF, "for cand_size in xrange(size_lower_bound, size_upper_bound + 1):", "for cand_size in xrange(size_lower_bound, size_upper_bound):")],
     {'C04'}, 'largest admissible size never probed'),
    ('cand-prune-ge-to-gt', [(PF, "                        if (current_overlap + overlap_upper_bound >=\n", "                        if (current_overlap + overlap_upper_bound >\n")],
     {'C01', 'C04'}, 'candidate with exactly the required overlap pruned'),
    ('cand-min-to-max-branch', [(PF, "                            overlap_upper_bound = probe_num_tokens - probe_pos\n                        else:\n                            overlap_upper_bound = cand_num_tokens - cand_pos ", "                            overlap_upper_bound = cand_num_tokens - cand_pos\n                        else:\n                            overlap_upper_bound = probe_num_tokens - probe_pos")],
     {'C14'}, 'upper bound takes the max of the two remainders (looser, position filter no longer tight)'),
    ('cand-probe-pos-inner', [(PF, "                            candidate_overlap[cand] = -1\n\n            probe_pos += 1", "                            candidate_overlap[cand] = -1\n                probe_pos += 1")],
     {'C01', 'C04'}, 'probe position advanced per posting'),
    ('cand-overlap-ge-1', [(SSJ, "            if overlap > 0:", "            if overlap > 1:")],
     {'C01'}, 'candidates with a single prefix overlap dropped'),
    ('cand-prefix-slice-short', [(XF, "        for token in probe_tokens[0:probe_prefix_length]:", "        for token in probe_tokens[1:probe_prefix_length]:")],
     {'C04', 'C03'}, 'first prefix token never probed'),
    ('cand-list-not-set', [(XF, "        candidates = set()\n        for token in probe_tokens[0:probe_prefix_length]:\n            candidates.update(prefix_index.probe(token))", "        candidates = []\n        for token in probe_tokens[0:probe_prefix_length]:\n            candidates.extend(prefix_index.probe(token))")],
     {'C03', 'C02'}, 'one output row per shared prefix token'),
    ('once-rowid-continue', [(SI, "            if num_tokens == 0:\n                row_id += 1\n                continue", "            if num_tokens == 0:\n                continue")],
     {'C04', 'C09'}, 'row ids shift after an empty row'),
    ('once-pos-double', [(PI, "                pos += 1", "                pos += 2")],
     {'C01', 'C04'}, 'index positions advance by two'),
    ('cand-wrong-size-for-prefix', [(PI, "            prefix_length = get_prefix_length(\n                                num_tokens,", "            prefix_length = get_prefix_length(\n                                num_tokens - 1,")],
     {'C01', 'C04'}, 'index prefix computed from the wrong size'),
    ('cand-window-uses-cand-pos', [(PF, "                    if size_lower_bound <= cand_num_tokens <= size_upper_bound:", "                    if size_lower_bound < cand_num_tokens <= size_upper_bound:")],
     {'C01', 'C04'}, 'size window exclusive at the lower end'),
]

SILENT = [
    ('s-form-commute', [(FU, "return int(ceil(round(threshold * num_tokens, 4)))", "return int(ceil(round(num_tokens * threshold, 4)))")], 'commuted product'),
    ('s-form-local', [(FU, "        return int(floor(round(num_tokens / threshold, 4)))", "        bound = round(num_tokens / threshold, 4)\n        return int(floor(bound))")], 'bound through a local'),
    ('s-form-dice-reassoc', [(FU, "return int(ceil(round((threshold / (2 - threshold)) * num_tokens, 4)))", "return int(ceil(round(threshold * num_tokens / (2 - threshold), 4)))")], 'reassociated dice core'),
    ('s-form-if-order', [(FU, "    if sim_measure_type == 'COSINE':\n        return int(ceil(round(threshold * threshold * num_tokens, 4)))\n    elif sim_measure_type == 'DICE':\n        return int(ceil(round((threshold / (2 - threshold)) * num_tokens, 4)))",
                          "    if sim_measure_type == 'DICE':\n        return int(ceil(round((threshold / (2 - threshold)) * num_tokens, 4)))\n    elif sim_measure_type == 'COSINE':\n        return int(ceil(round(threshold * threshold * num_tokens, 4)))")], 'branches reordered'),
    ('s-split-rename-job', [(JJ, "r_splits[job_index]", "r_splits[j]"), (JJ, "(job_index==n_jobs-1)", "(j==n_jobs-1)"), (JJ, "for job_index in range(n_jobs))", "for j in range(n_jobs))")], 'job variable renamed'),
    ('s-split-guard-lt2', [(JJ, "    if n_jobs <= 1:", "    if n_jobs < 2:")], 'n_jobs < 2'),
    ('s-split-inline', [(CJ, "        r_splits = split_table(rtable_array, n_jobs)\n", "        r_splits = split_table(rtable_array, n_jobs)\n        # (comment only)\n")], 'comment added'),
    ('s-shape-score-local', [(SSJ, "                    if out_sim_score:\n                        output_row.append(sim_score)", "                    if out_sim_score:\n                        score_cell = sim_score\n                        output_row.append(score_cell)")], 'score through a local'),
    ('s-flag-try-finally', [(DJ, "    # remove redundant attrs from output attrs.\n    l_out_attrs = remove_redundant_attrs(l_out_attrs, l_key_attr)", "    # remove redundant attrs from output attrs.\n    l_out_attrs = remove_redundant_attrs(l_out_attrs, l_key_attr)\n    # (no behavioural change)")], 'comment'),
    ('s-flag-negated-test', [(JJ, "    if not tokenizer.get_return_set():\n        tokenizer.set_return_set(True)\n        revert_tokenizer_return_set_flag = True", "    if tokenizer.get_return_set():\n        pass\n    else:\n        tokenizer.set_return_set(True)\n        revert_tokenizer_return_set_flag = True")], 'negated test with swapped arms'),
    ('s-valid-reorder', [(JJ, "    validate_input_table(ltable, 'left table')\n    validate_input_table(rtable, 'right table')", "    validate_input_table(rtable, 'right table')\n    validate_input_table(ltable, 'left table')")], 'independent validators reordered'),
    ('s-verify-compare-dir', [(PF, "                    if size_lower_bound <= cand_num_tokens <= size_upper_bound:", "                    if cand_num_tokens >= size_lower_bound and size_upper_bound >= cand_num_tokens:")], 'comparison direction'),
    ('s-cand-min-call', [(PF, "                        if (probe_num_tokens - probe_pos <=\n                                cand_num_tokens - cand_pos):\n                            overlap_upper_bound = probe_num_tokens - probe_pos\n                        else:\n                            overlap_upper_bound = cand_num_tokens - cand_pos ", "                        overlap_upper_bound = min(probe_num_tokens - probe_pos,\n                                                  cand_num_tokens - cand_pos)")], 'if/else select -> min()'),
    ('s-cand-ge-flipped', [(PF, "                        if (current_overlap + overlap_upper_bound >=\n                                overlap_threshold_cache[cand_num_tokens]):\n                            candidate_overlap[cand] = current_overlap + 1\n                        else:\n                            candidate_overlap[cand] = -1", "                        if (current_overlap + overlap_upper_bound <\n                                overlap_threshold_cache[cand_num_tokens]):\n                            candidate_overlap[cand] = -1\n                        else:\n                            candidate_overlap[cand] = current_overlap + 1")], 'negated test, swapped arms'),
    ('s-cand-overlap-ge1', [(SSJ, "            if overlap > 0:", "            if overlap >= 1:")], 'integer normal form'),
    ('s-cand-slice-none', [(XF, "        for token in probe_tokens[0:probe_prefix_length]:", "        for token in probe_tokens[:probe_prefix_length]:")], 'slice without explicit 0'),
    ('s-once-enumerate', [(XI, "        row_id = 0\n        for row in self.table:", "        for row_id, row in enumerate(self.table):"), (XI, "                empty_records.append(row_id)\n\n            row_id += 1", "                empty_records.append(row_id)\n")], 'enumerate instead of a manual counter'),
    ('s-opmap-import', [(SSJ, "    comp_fn = COMP_OP_MAP[comp_op]", "    comp_fn = COMP_OP_MAP[comp_op]  # comparator")], 'comment'),
    ('s-window-max', [(SF, "        size_lower_bound = (size_index.min_length if\n                            size_lower_bound < size_index.min_length else\n                            size_lower_bound)", "        size_lower_bound = max(size_lower_bound, size_index.min_length)")], 'conditional expression -> max()'),
]
