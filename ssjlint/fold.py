"""Constant folding of test expressions after argument substitution (used by the
interprocedural raise-guard analysis): comparisons and membership tests between literals,
`.upper()` of a literal, `not <literal>`, and the monotone rewrite of floor/int against an
integer constant (floor(E) < k  <=>  E < k, ...)."""
import ast
import copy

_OPS = {ast.Eq: lambda a, b: a == b, ast.NotEq: lambda a, b: a != b, ast.Lt: lambda a, b: a < b,
        ast.LtE: lambda a, b: a <= b, ast.Gt: lambda a, b: a > b, ast.GtE: lambda a, b: a >= b}


def _floor_arg(e):
    """int(floor(E)) / floor(E) / math.floor(E) -> E"""
    if isinstance(e, ast.Call) and isinstance(e.func, ast.Name) and e.func.id == 'int' and len(e.args) == 1:
        inner = _floor_arg(e.args[0])
        return inner
    if isinstance(e, ast.Call) and len(e.args) == 1 and not e.keywords:
        f = e.func
        if (isinstance(f, ast.Name) and f.id == 'floor') or (isinstance(f, ast.Attribute) and f.attr == 'floor'):
            return e.args[0]
    return None


class _Fold(ast.NodeTransformer):
    def visit_Call(self, n):
        self.generic_visit(n)
        if isinstance(n.func, ast.Attribute) and n.func.attr in ('upper', 'lower') and not n.args \
                and isinstance(n.func.value, ast.Constant) and isinstance(n.func.value.value, str):
            v = n.func.value.value
            return ast.copy_location(ast.Constant(v.upper() if n.func.attr == 'upper' else v.lower()), n)
        return n

    def visit_UnaryOp(self, n):
        self.generic_visit(n)
        if isinstance(n.op, ast.Not) and isinstance(n.operand, ast.Constant):
            return ast.copy_location(ast.Constant(not n.operand.value), n)
        return n

    def visit_Compare(self, n):
        self.generic_visit(n)
        if len(n.ops) != 1:
            return n
        op, l, r = n.ops[0], n.left, n.comparators[0]
        try:
            if isinstance(l, ast.Constant) and isinstance(r, ast.Constant) and type(op) in _OPS:
                return ast.copy_location(ast.Constant(bool(_OPS[type(op)](l.value, r.value))), n)
            if isinstance(l, ast.Constant) and isinstance(op, (ast.In, ast.NotIn)) \
                    and isinstance(r, (ast.List, ast.Tuple, ast.Set)) and all(isinstance(x, ast.Constant) for x in r.elts):
                inn = l.value in [x.value for x in r.elts]
                return ast.copy_location(ast.Constant(inn if isinstance(op, ast.In) else not inn), n)
            if isinstance(l, ast.Constant) and isinstance(op, (ast.Is, ast.IsNot)) and isinstance(r, ast.Constant):
                same = l.value is r.value
                return ast.copy_location(ast.Constant(same if isinstance(op, ast.Is) else not same), n)
        except TypeError:
            return n
        # floor(E) op k  with integer k
        fa = _floor_arg(l)
        if fa is not None and isinstance(r, ast.Constant) and isinstance(r.value, int) and not isinstance(r.value, bool):
            k = r.value
            if isinstance(op, ast.Lt):
                return ast.Compare(left=fa, ops=[ast.Lt()], comparators=[ast.Constant(k)])
            if isinstance(op, ast.GtE):
                return ast.Compare(left=fa, ops=[ast.GtE()], comparators=[ast.Constant(k)])
            if isinstance(op, ast.LtE):
                return ast.Compare(left=fa, ops=[ast.Lt()], comparators=[ast.Constant(k + 1)])
            if isinstance(op, ast.Gt):
                return ast.Compare(left=fa, ops=[ast.GtE()], comparators=[ast.Constant(k + 1)])
        return n

    def visit_BoolOp(self, n):
        self.generic_visit(n)
        vals = []
        for v in n.values:
            if isinstance(v, ast.Constant) and isinstance(v.value, bool):
                if isinstance(n.op, ast.And) and not v.value:
                    return ast.Constant(False)
                if isinstance(n.op, ast.Or) and v.value:
                    return ast.Constant(True)
                continue
            vals.append(v)
        if not vals:
            return ast.Constant(isinstance(n.op, ast.And))
        if len(vals) == 1:
            return vals[0]
        return ast.BoolOp(op=n.op, values=vals)


def fold(e):
    return _Fold().visit(copy.deepcopy(e))
