"""Acyclic path enumeration over a function CFG and forward symbolic substitution along a path."""
import ast
import copy

from . import AnalysisError
from .model import U
from .absrow import _rebuild, Sym


class Step(object):
    __slots__ = ('node', 'label')

    def __init__(self, node, label):
        self.node, self.label = node, label


def enumerate_paths(cfg, src, dsts, stop=(), limit=20000, skip_labels=('exc',)):
    """All acyclic paths from node id `src` to any node id in `dsts`, never expanding through a node
    in `stop` (a stop node may be a destination). Yields lists of Step(node, label taken to leave it);
    the last step has label None."""
    dsts = set(dsts)
    stop = set(stop)
    out = []
    path = []
    on = set()

    def rec(nid):
        if len(out) > limit:
            raise AnalysisError('more than %d paths' % limit)
        node = cfg.nodes[nid]
        if nid in dsts:
            out.append(path + [Step(node, None)])
            if nid in stop or True:
                # a destination ends the path (callers ask for the first arrival)
                return
        if nid in stop or nid in on:
            return
        on.add(nid)
        for s, lab in node.succ:
            if lab in skip_labels:
                continue
            path.append(Step(node, lab))
            rec(s)
            path.pop()
        on.discard(nid)
    rec(src)
    return out


class PathState(object):
    def __init__(self):
        self.env = {}        # name -> expr AST (already substituted)
        self.conds = []      # (expr AST substituted, polarity, stmt)
        self.events = []     # (call expr AST substituted, stmt)
        self.counts = {}     # name -> number of augmented assignments along the path
        self.cond_pos = []   # position (step index) of each entry of conds
        self.event_pos = []  # position (step index) of each entry of events


def _sub(e, env):
    return _rebuild(e, env)


def symexec(path, skip_first=False):
    """Forward substitution along `path`. Loop targets and names bound by tuple unpacking become
    free symbols again. Returns PathState."""
    ps = PathState()
    for i, step in enumerate(path):
        node, st = step.node, step.node.ast
        if st is None or (skip_first and i == 0):
            continue
        n_c, n_e = len(ps.conds), len(ps.events)
        if node.kind == 'stmt':
            if isinstance(st, ast.Assign):
                v = _sub(st.value, ps.env)
                for c in ast.walk(st.value):
                    if isinstance(c, ast.Call):
                        ps.events.append((_sub(c, ps.env), st))
                for t in st.targets:
                    if isinstance(t, ast.Name):
                        ps.env[t.id] = v
                    elif isinstance(t, (ast.Tuple, ast.List)):
                        if isinstance(v, (ast.Tuple, ast.List)) and len(v.elts) == len(t.elts) \
                                and all(isinstance(x, ast.Name) for x in t.elts) and not any(isinstance(x, ast.Starred) for x in v.elts):
                            # a, b = X, Y: elementwise (the right-hand side was substituted before any target is bound)
                            for x, xv in zip(t.elts, v.elts):
                                ps.env[x.id] = xv
                            continue
                        for x in t.elts:
                            if isinstance(x, ast.Name):
                                ps.env.pop(x.id, None)
                    elif isinstance(t, (ast.Subscript, ast.Attribute)):
                        ps.events.append((ast.Call(func=ast.Name(id='__store__', ctx=ast.Load()),
                                                   args=[_sub(t, ps.env), v], keywords=[]), st))
            elif isinstance(st, ast.AugAssign):
                if isinstance(st.target, ast.Name):
                    cur = ps.env.get(st.target.id, ast.Name(id=st.target.id, ctx=ast.Load()))
                    ps.env[st.target.id] = ast.BinOp(left=cur, op=st.op, right=_sub(st.value, ps.env))
                    ps.counts[st.target.id] = ps.counts.get(st.target.id, 0) + 1
                else:
                    ps.events.append((ast.Call(func=ast.Name(id='__store__', ctx=ast.Load()),
                                               args=[_sub(st.target, ps.env), _sub(st.value, ps.env)], keywords=[]), st))
            elif isinstance(st, ast.Expr):
                for c in ast.walk(st.value):
                    if isinstance(c, ast.Call):
                        ps.events.append((_sub(c, ps.env), st))
        elif node.kind == 'test':
            if step.label in ('T', 'F'):
                ps.conds.append((_sub(st.test, ps.env), step.label == 'T', st))
        elif node.kind == 'loop':
            if isinstance(st, ast.For):
                if step.label == 'iter':
                    for x in ast.walk(st.target):
                        if isinstance(x, ast.Name):
                            ps.env.pop(x.id, None)
                    ps.conds.append((ast.Call(func=ast.Name(id='__iter__', ctx=ast.Load()),
                                              args=[_sub(st.iter, ps.env)], keywords=[]), True, st))
            elif isinstance(st, ast.While) and step.label in ('iter', 'done'):
                ps.conds.append((_sub(st.test, ps.env), step.label == 'iter', st))
        elif node.kind == 'return':
            if st.value is not None:
                for c in ast.walk(st.value):
                    if isinstance(c, ast.Call):
                        ps.events.append((_sub(c, ps.env), st))
                ps.events.append((ast.Call(func=ast.Name(id='__return__', ctx=ast.Load()),
                                           args=[_sub(st.value, ps.env)], keywords=[]), st))
        ps.cond_pos += [i] * (len(ps.conds) - n_c)
        ps.event_pos += [i] * (len(ps.events) - n_e)
    return ps


def loop_body_paths(view, loop_stmt, limit=20000):
    """Acyclic paths of one iteration of `loop_stmt`: from its head (taking the 'iter' edge) back to
    the head (normal end of body or `continue`) or out of the loop through break/return/raise.
    -> list of (path, how) with how in {'next', 'exit'}"""
    cfg = view.cfg
    heads = cfg.nodes_of(loop_stmt)
    out = []
    for h in heads:
        first = [s for s, lab in h.succ if lab == 'iter']
        if not first:
            continue
        body_nodes = _body_nodes(cfg, h)
        exits = set()
        for nid in body_nodes:
            for s, lab in cfg.nodes[nid].succ:
                if s not in body_nodes and s != h.id:
                    exits.add(s)
        for p in enumerate_paths(cfg, first[0], {h.id} | exits, stop={h.id} | exits, limit=limit):
            how = 'next' if p[-1].node.id == h.id else 'exit'
            out.append(([Step(h, 'iter')] + p, how))
    return out


def _body_nodes(cfg, head):
    """nodes reachable from the head's 'iter' successor without passing through the head"""
    first = [s for s, lab in head.succ if lab == 'iter']
    seen = set()
    todo = list(first)
    done_succ = set(s for s, lab in head.succ if lab == 'done')
    while todo:
        x = todo.pop()
        if x in seen or x == head.id:
            continue
        seen.add(x)
        for s, lab in cfg.nodes[x].succ:
            todo.append(s)
    # nodes after the loop are reachable via break/return only; restrict to nodes dominated syntactically:
    body_ids = set()
    for st in ast.walk(head.ast):
        for n in cfg.nodes_of(st):
            body_ids.add(n.id)
    return seen & body_ids
