"""Abstract interpretation of list-building code (row and header layouts).

A function is executed symbolically under *scenarios*: assignments of {NONE, EMPTY, NONEMPTY}
to the symbols (parameters / expressions over them) whose None-ness, truthiness or emptiness
decides which cells a list receives. Scenarios are discovered on demand: an undetermined test
whose two branches leave the tracked state different raises NeedSplit and the run is restarted
with that symbol fixed to each of the three kinds. Other tests (opaque: comparator calls,
counters, progress flags) execute both branches and join; a join of different tracked values is
Unknown, and an Unknown reaching a sink is an AnalysisError (undecided), never a verdict.

Values: Sym(expr) opaque scalar/collection; NoneV; ListV(cells) with cells One(value) or
Many(template, base) = one cell per element of symbol `base` (template mentions `__elt__`)."""
import ast
import copy

from . import AnalysisError
from .model import U, FuncInfo

ELT = '__elt__'
PHI = '__either__'
NONE, EMPTY, NONEMPTY = 'NONE', 'EMPTY', 'NONEMPTY'


class NeedSplit(Exception):
    def __init__(self, sym):
        self.sym = sym


class Sym(object):
    deps = None

    def __init__(self, expr):
        self.expr = expr
        self._text = None

    @property
    def text(self):
        if self._text is None:
            self._text = U(self.expr)
        return self._text

    def __eq__(self, o):
        return isinstance(o, Sym) and (o.expr is self.expr or o.text == self.text)

    def __repr__(self):
        return 'Sym(%s)' % self.text


class NoneV(object):
    def __eq__(self, o):
        return isinstance(o, NoneV)

    def __repr__(self):
        return 'None'


class Unknown(object):
    def __init__(self, why=''):
        self.why = why

    def __eq__(self, o):
        return False

    def __repr__(self):
        return 'Unknown(%s)' % self.why


class One(object):
    def __init__(self, value):
        self.value = value

    def key(self):
        return ('one', repr(self.value))

    def __repr__(self):
        return repr(self.value)


class Many(object):
    def __init__(self, template, var, base):
        self.template = template    # value (Sym) mentioning the loop variable `var`
        self.var = var
        self.base = base            # text of the symbol iterated over

    def canon(self):
        """template with the loop variable renamed to __elt__"""
        v = self.var

        class T(ast.NodeTransformer):
            def visit_Name(s, n):
                if n.id == v:
                    return ast.copy_location(ast.Name(id=ELT, ctx=n.ctx), n)
                return n
        return T().visit(copy.deepcopy(expr_of(self.template)))

    def key(self):
        return ('many', U(self.canon()), self.base)

    def __repr__(self):
        return '[%s for %s in %s]' % (U(expr_of(self.template)), self.var, self.base)


class ListV(object):
    def __init__(self, cells=None):
        self.cells = list(cells or [])

    def copy(self):
        return ListV(self.cells)

    def key(self):
        return tuple(c.key() for c in self.cells)

    def __eq__(self, o):
        return isinstance(o, ListV) and o.key() == self.key()

    def __repr__(self):
        return 'List%r' % (self.cells,)


class TupleV(object):
    """a tuple of abstract values (several results returned by a helper); `names` for a namedtuple"""
    def __init__(self, items, names=None):
        self.items = list(items)
        self.names = list(names) if names else None

    def __eq__(self, o):
        return isinstance(o, TupleV) and len(o.items) == len(self.items) and all(_same(a, b) for a, b in zip(self.items, o.items))

    def __repr__(self):
        return 'Tuple%r' % (self.items,)


def expr_of(v):
    if isinstance(v, ast.AST):
        return v
    if isinstance(v, TupleV):
        return ast.Tuple(elts=[expr_of(x) for x in v.items], ctx=ast.Load())
    if isinstance(v, Sym):
        return v.expr
    if isinstance(v, NoneV):
        return ast.Constant(None)
    if isinstance(v, ListV):
        return ast.Name(id='<list>', ctx=ast.Load())
    return ast.Name(id='<unknown>', ctx=ast.Load())


class Sink(object):
    def __init__(self, stmt, row, path, func):
        self.stmt, self.row, self.path, self.func = stmt, row, path, func


class Frame(object):
    def __init__(self, stmt, rows_name, header, func):
        self.stmt, self.rows_name, self.header, self.func = stmt, rows_name, header, func


class Interp(object):
    """One symbolic run of `finfo` under `scenario` (dict: symbol text -> kind)."""

    def __init__(self, repo, scenario, inline=()):
        self.repo = repo
        self.scn = scenario
        self.inline = set(inline)
        self.sinks = []
        self.frames = []
        self.none_iter = []
        self.depth = 0

    # ------------------------------------------------------------------ entry
    def run(self, finfo, args=None, closure=None, outer_sinks=()):
        env = dict(closure or {})
        for p in finfo.params + finfo.kwonly:
            env[p] = args[p] if args and p in args else Sym(ast.Name(id=p, ctx=ast.Load()))
        sink_names = set()
        for n in ast.walk(finfo.node):
            if isinstance(n, ast.Call) and U(n.func) in ('pd.DataFrame', 'pandas.DataFrame', 'DataFrame') and n.args \
                    and isinstance(n.args[0], ast.Name):
                sink_names.add(n.args[0].id)
        # a closure appending to the row list of the function it is nested in
        sink_names |= set(x for x in outer_sinks if x not in finfo.params)
        st = _State(finfo, env, sink_names)
        ret = []
        self._block(finfo.node.body, st, ret, ())
        if not ret:
            return NoneV()
        out = ret[0]
        for r in ret[1:]:
            out = _join(out, r)
        return out

    # ------------------------------------------------------------------ kinds
    def kind(self, v):
        """-> NONE / EMPTY / NONEMPTY / None(unknown, not eligible) ; raises NeedSplit for eligible symbols"""
        if isinstance(v, NoneV):
            return NONE
        if isinstance(v, ListV):
            live = False
            for c in v.cells:
                if isinstance(c, One):
                    return NONEMPTY
                k = self.scn.get(c.base)
                if k is None:
                    raise NeedSplit(c.base)
                if k == NONEMPTY:
                    live = True
            return NONEMPTY if live else EMPTY
        if isinstance(v, Sym):
            if isinstance(v.expr, ast.Constant):
                return NONE if v.expr.value is None else (NONEMPTY if v.expr.value else EMPTY)
            if v.text in self.scn:
                return self.scn[v.text]
            if _eligible(v.expr):
                return 'ELIGIBLE'
        return None

    # ------------------------------------------------------------------ expressions
    def eval(self, e, st):
        if isinstance(e, ast.Constant):
            if e.value is None:
                return NoneV()
            return Sym(e)
        if isinstance(e, ast.Name):
            if e.id in st.env:
                return st.env[e.id]
            return Sym(e)
        if isinstance(e, ast.List):
            return ListV([One(self.eval(x, st)) for x in e.elts])
        if isinstance(e, ast.Tuple) and not any(isinstance(x, ast.Starred) for x in e.elts):
            return TupleV([self.eval(x, st) for x in e.elts])
        if isinstance(e, ast.BinOp) and isinstance(e.op, ast.Add):
            a, b = self.eval(e.left, st), self.eval(e.right, st)
            if isinstance(a, ListV) and isinstance(b, ListV):
                return ListV(a.cells + b.cells)
            if isinstance(a, ListV) or isinstance(b, ListV):
                return Unknown('list + non-list')
            return Sym(ast.BinOp(left=expr_of(a), op=ast.Add(), right=expr_of(b)))
        if isinstance(e, ast.Call):
            if isinstance(e.func, ast.Name) and st.func is not None and not any(isinstance(a, ast.Starred) for a in e.args):
                fields = self.repo.namedtuple_fields(st.func.module, e.func.id, st.func)
                if fields and len(e.args) + len(e.keywords) == len(fields):
                    vals = {}
                    for nm, a in zip(fields, e.args):
                        vals[nm] = self.eval(a, st)
                    for k in e.keywords:
                        if k.arg in fields:
                            vals[k.arg] = self.eval(k.value, st)
                    if set(vals) == set(fields):
                        return TupleV([vals[nm] for nm in fields], names=fields)
            return self._call(e, st)
        if isinstance(e, ast.Attribute):
            base = self.eval(e.value, st)
            if isinstance(base, TupleV) and base.names and e.attr in base.names:
                return base.items[base.names.index(e.attr)]
            if isinstance(base, TupleV):
                return Unknown('attribute %s of a tuple' % e.attr)
        if isinstance(e, (ast.ListComp, ast.GeneratorExp)) and len(e.generators) == 1 and not e.generators[0].ifs \
                and isinstance(e.generators[0].target, ast.Name):
            g = e.generators[0]
            it = self.eval(g.iter, st)
            var = g.target.id
            cells = []
            pieces = []
            if isinstance(it, ListV):
                for c in it.cells:
                    if isinstance(c, One):
                        pieces.append((c.value, None, None))
                    else:
                        pieces.append((c.template, c.var, c.base))
            elif isinstance(it, NoneV):
                self.none_iter.append((e, st.func, U(g.iter)))
                return ListV([])
            elif isinstance(it, Sym) and (it.text in self.scn or _eligible(it.expr)):
                k = self.scn.get(it.text)
                if k == NONE:
                    self.none_iter.append((e, st.func, it.text))
                    return ListV([])
                if k != EMPTY:
                    pieces.append((Sym(ast.Name(id=var, ctx=ast.Load())), var, it.text))
            else:
                # an opaque iterable (a call result): the repetition count is unknown, the element layout is not
                pieces.append((Sym(ast.Name(id=var, ctx=ast.Load())), var, '<opaque>' + (it.text if isinstance(it, Sym) else '?')))
            for val, v, base in pieces:
                sub = st.fork()
                sub.env[var] = val
                cellv = self.eval(e.elt, sub)
                if base is None:
                    cells.append(One(cellv))
                else:
                    cells.append(Many(cellv, v, base))
            return ListV(cells)
        if isinstance(e, ast.IfExp):
            t = self.truth(e.test, st)
            if t is True:
                return self.eval(e.body, st)
            if t is False:
                return self.eval(e.orelse, st)
            return _join(self.eval(e.body, st), self.eval(e.orelse, st))
        if isinstance(e, (ast.BoolOp, ast.Compare)) or (isinstance(e, ast.UnaryOp) and isinstance(e.op, ast.Not)):
            # a stored condition: decide it now if the scenario can, else remember what it depends on
            saved = st.pending
            st.pending = set()
            t = self.truth(e, st)
            deps = st.pending
            st.pending = saved
            if t is not None:
                return Sym(ast.Constant(t))
            v = Sym(self._subst(e, st))
            v.deps = set(deps)
            return v
        # generic: rebuild with evaluated names
        return Sym(self._subst(e, st))

    def _subst(self, e, st):
        return _rebuild(e, st.env)

    def _call(self, e, st):
        r = self.repo.resolve_call(st.func, e) if st.func is not None else None
        if r is not None and r[1] == 'func' and self.depth < 6 and (r[0].name in self.inline or self._local_helper(st.func, r[0])):
            callee, _, bound = r
            args = {p: self.eval(a, st) if not _is_default(callee, p, a) else self._eval_default(a) for p, a in bound.items()}
            sub = Interp(self.repo, self.scn, self.inline)
            sub.depth = self.depth + 1
            out = sub.run(callee, args, closure=st.env if callee.outer is not None else None,
                          outer_sinks=st.sink_names if callee.outer is not None else ())
            self.none_iter += sub.none_iter
            for sk in sub.sinks:
                sk.via = (id(e),) + getattr(sk, 'via', ())      # one row site per call site of the helper
            self.sinks += sub.sinks
            self.frames += [fr for fr in sub.frames if fr not in self.frames]
            return out
        if isinstance(e.func, ast.Name) and e.func.id == 'list' and len(e.args) == 1:
            v = self.eval(e.args[0], st)
            if isinstance(v, ListV):
                return v.copy()
        # DataFrame construction: a frame
        if U(e.func) in ('pd.DataFrame', 'pandas.DataFrame', 'DataFrame') and e.args and isinstance(e.args[0], ast.Name) \
                and e.args[0].id in st.sink_names:
            hdr = None
            for kw in e.keywords:
                if kw.arg == 'columns':
                    hdr = self.eval(kw.value, st)
            if hdr is None and len(e.args) > 2:
                hdr = self.eval(e.args[2], st)
            self.frames.append(Frame(e, e.args[0].id, hdr, st.func))
        return Sym(self._subst(e, st))

    def _local_helper(self, caller, callee):
        """a small helper of the caller's own module (or a function nested in it) that builds no frame itself"""
        if callee.outer is not None:
            return True
        if callee.module is not caller.module or callee is caller:
            return False
        n = sum(1 for _ in ast.walk(callee.node))
        builds = any(isinstance(x, ast.Call) and U(x.func).endswith('DataFrame') for x in ast.walk(callee.node))
        return n < 400 and not builds and callee.name.startswith('_')

    def _eval_default(self, a):
        if isinstance(a, ast.Constant) and a.value is None:
            return NoneV()
        return Sym(a)

    # ------------------------------------------------------------------ tests
    def truth(self, t, st):
        """-> True / False / None (undetermined). May raise NeedSplit via decide()."""
        if isinstance(t, ast.UnaryOp) and isinstance(t.op, ast.Not):
            v = self.truth(t.operand, st)
            return None if v is None else (not v)
        if isinstance(t, ast.BoolOp):
            vals = [self.truth(v, st) for v in t.values]
            if isinstance(t.op, ast.And):
                if any(v is False for v in vals):
                    return False
                return True if all(v is True for v in vals) else None
            if any(v is True for v in vals):
                return True
            return False if all(v is False for v in vals) else None
        if isinstance(t, ast.Compare) and len(t.ops) == 1 and isinstance(t.ops[0], (ast.Is, ast.IsNot)) \
                and isinstance(t.comparators[0], ast.Constant) and t.comparators[0].value is None:
            k = self._kind_or_mark(self.eval(t.left, st), st)
            if k is None:
                return None
            isnone = (k == NONE)
            return isnone if isinstance(t.ops[0], ast.Is) else (not isnone)
        if isinstance(t, ast.Compare):
            return None
        if isinstance(t, ast.Constant):
            return bool(t.value)
        v = self.eval(t, st)
        k = self._kind_or_mark(v, st)
        if k is None:
            return None
        return k == NONEMPTY

    def _kind_or_mark(self, v, st):
        if isinstance(v, Sym) and getattr(v, 'deps', None):
            st.pending |= v.deps
            return None
        k = self.kind(v)
        if k == 'ELIGIBLE':
            st.pending.add(v.text)
            return None
        return k

    # ------------------------------------------------------------------ statements
    def _block(self, stmts, st, ret, path):
        """Executes stmts on st (mutating). Returns False when the path terminated."""
        for s in stmts:
            if not self._stmt(s, st, ret, path):
                return False
        return True

    def _stmt(self, s, st, ret, path):
        if isinstance(s, ast.Assign):
            v = self.eval(s.value, st)
            for t in s.targets:
                self._assign(t, v, st)
            return True
        if isinstance(s, ast.AugAssign):
            if isinstance(s.target, ast.Name):
                cur = st.env.get(s.target.id)
                if isinstance(cur, ListV) and isinstance(s.op, ast.Add):
                    v = self.eval(s.value, st)
                    st.env[s.target.id] = ListV(cur.cells + v.cells) if isinstance(v, ListV) else Unknown('list += ?')
                else:
                    st.env[s.target.id] = Sym(ast.Name(id=s.target.id + "'", ctx=ast.Load()))
            return True
        if isinstance(s, ast.AnnAssign):
            if s.value is not None:
                self._assign(s.target, self.eval(s.value, st), st)
            return True
        if isinstance(s, ast.Expr):
            self._expr_stmt(s, st, path)
            return True
        if isinstance(s, ast.If):
            return self._if(s, st, ret, path)
        if isinstance(s, (ast.For, ast.While)):
            self._loop(s, st, ret, path)
            return True
        if isinstance(s, ast.Return):
            ret.append(self.eval(s.value, st) if s.value is not None else NoneV())
            return False
        if isinstance(s, (ast.Raise, ast.Continue, ast.Break)):
            return False
        if isinstance(s, ast.With):
            return self._block(s.body, st, ret, path)
        if isinstance(s, ast.Try):
            ok = self._block(s.body, st, ret, path)
            if ok and s.orelse:
                ok = self._block(s.orelse, st, ret, path)
            if s.finalbody:
                self._block(s.finalbody, st, ret, path)
            return ok
        return True

    def _assign(self, t, v, st):
        if isinstance(t, ast.Name):
            st.env[t.id] = v.copy() if isinstance(v, ListV) else v
        elif isinstance(t, (ast.Tuple, ast.List)):
            if isinstance(v, TupleV) and len(v.items) == len(t.elts) and not any(isinstance(x, ast.Starred) for x in t.elts):
                for x, item in zip(t.elts, v.items):
                    self._assign(x, item, st)
                return
            for i, x in enumerate(t.elts):
                if isinstance(x, ast.Name):
                    st.env[x.id] = Sym(ast.Name(id=x.id, ctx=ast.Load()))

    def _expr_stmt(self, s, st, path):
        c = s.value
        if not isinstance(c, ast.Call):
            return
        if isinstance(c.func, ast.Attribute) and isinstance(c.func.value, ast.Name):
            obj, meth = c.func.value.id, c.func.attr
            if obj in st.sink_names and meth == 'append' and len(c.args) == 1:
                v = self.eval(c.args[0], st)
                self.sinks.append(Sink(s, v.copy() if isinstance(v, ListV) else v, path, st.func))
                return
            if obj in st.sink_names and meth == 'extend' and len(c.args) == 1:
                # rows collected by a helper: each (possibly repeated) element is a row of the frame
                v = self.eval(c.args[0], st)
                if isinstance(v, ListV):
                    for cell in v.cells:
                        if isinstance(cell, Many):
                            if self.scn.get(cell.base) in (NONE, EMPTY):
                                continue
                            row = cell.template
                        else:
                            row = cell.value
                        self.sinks.append(Sink(s, row.copy() if isinstance(row, ListV) else Unknown('extend with rows that are not lists'),
                                               path, st.func))
                    return
                self.sinks.append(Sink(s, Unknown('extend on the row list with an opaque value'), path, st.func))
                return
            if obj in st.sink_names and meth in ('extend', 'insert'):
                self.sinks.append(Sink(s, Unknown('%s on the row list' % meth), path, st.func))
                return
            cur = st.env.get(obj)
            if isinstance(cur, ListV):
                if meth == 'append' and len(c.args) == 1:
                    cur.cells.append(One(self.eval(c.args[0], st)))
                elif meth == 'insert' and len(c.args) == 2 and isinstance(c.args[0], ast.Constant) and c.args[0].value == 0:
                    cur.cells.insert(0, One(self.eval(c.args[1], st)))
                elif meth == 'extend' and len(c.args) == 1:
                    v = self.eval(c.args[0], st)
                    if isinstance(v, ListV):
                        cur.cells.extend(v.cells)
                    else:
                        st.env[obj] = Unknown('extend with non-list')
                elif meth in ('pop', 'remove', 'clear', 'sort', 'reverse', 'insert'):
                    st.env[obj] = Unknown('list.%s' % meth)
                return
        # any other call: evaluate for frames / inlined effects
        self.eval(c, st)

    def _if(self, s, st, ret, path):
        st.pending = set()
        t = self.truth(s.test, st)
        pending = set(st.pending)
        lit = U(s.test)
        if t is True:
            return self._block(s.body, st, ret, path + ((lit, True),))
        if t is False:
            return self._block(s.orelse, st, ret, path + ((lit, False),))
        a, b = st.fork(), st.fork()
        oka = self._block(s.body, a, ret, path + ((lit, True),))
        okb = self._block(s.orelse, b, ret, path + ((lit, False),))
        if oka and okb:
            conflict = st.merge(a, b)
            if conflict and pending:
                raise NeedSplit(sorted(pending)[0])
        elif oka:
            st.adopt(a)
        elif okb:
            st.adopt(b)
        else:
            return False
        return True

    def _loop(self, s, st, ret, path):
        if isinstance(s, ast.While):
            body = st.fork()
            before = {k: len(v.cells) for k, v in st.env.items() if isinstance(v, ListV)}
            self._block(s.body, body, ret, path + (('while ' + U(s.test), True),))
            st.after_loop(body, before, None, '<opaque>while')
            return
        it = self.eval(s.iter, st)
        tvar = s.target.id if isinstance(s.target, ast.Name) else None
        # a loop over the rows of a table parameter: the row symbol is named after the table, not after whatever the
        # loop variable happens to be called (sidedness and the candidate-set special case then survive renamings)
        root = None
        ia = s.iter
        if isinstance(ia, ast.Call) and isinstance(ia.func, ast.Attribute) and ia.func.attr == 'itertuples' and isinstance(ia.func.value, ast.Name):
            root = ia.func.value.id
        elif isinstance(ia, ast.Name):
            root = ia.id
        rowsym = None
        if tvar is not None and root is not None and st.func is not None and root in st.func.params \
                and isinstance(st.env.get(root), Sym) and isinstance(st.env[root].expr, ast.Name) and st.env[root].expr.id == root \
                and ('table' in root or 'candset' in root):
            rowsym = '%s__row' % root
        pieces = []      # (value bound to the loop variable, variable name of the repetition, base)
        if isinstance(it, ListV):
            for c in it.cells:
                if isinstance(c, One):
                    pieces.append((c.value, None, None))
                else:
                    k = self.scn.get(c.base)
                    if k is None:
                        raise NeedSplit(c.base)
                    if k == NONEMPTY:
                        pieces.append((c.template, c.var, c.base))
        elif isinstance(it, NoneV):
            self.none_iter.append((s, st.func, U(s.iter)))
            return
        elif isinstance(it, Sym) and it.text in self.scn:
            k = self.scn[it.text]
            if k == NONE:
                self.none_iter.append((s, st.func, it.text))
                return
            if k == EMPTY:
                return
            pieces.append((self._loopvar(s.target), tvar, it.text))
        elif isinstance(it, Sym) and _eligible(it.expr) and tvar is not None:
            pieces.append((self._loopvar(s.target), tvar, it.text))
        else:
            pieces.append((self._loopvar(s.target), tvar, '<opaque>' + (it.text if isinstance(it, Sym) else '?')))
        for val, var, base in pieces:
            body = st.fork()
            before = {k: len(v.cells) for k, v in st.env.items() if isinstance(v, ListV)}
            if rowsym is not None and isinstance(val, Sym) and isinstance(val.expr, ast.Name) and val.expr.id == tvar:
                val, var = Sym(ast.Name(id=rowsym, ctx=ast.Load())), rowsym
            self._assign_loopvar(s.target, val, body)
            self._block(s.body, body, ret, path + (('for ' + U(s.target) + ' in ' + U(s.iter), True),))
            st.after_loop(body, before, var, base)

    def _loopvar(self, t):
        if isinstance(t, ast.Name):
            return Sym(ast.Name(id=t.id, ctx=ast.Load()))
        return Sym(ast.Name(id='<loopvar>', ctx=ast.Load()))

    def _assign_loopvar(self, t, elt, st):
        if isinstance(t, ast.Name):
            st.env[t.id] = elt
        elif isinstance(t, (ast.Tuple, ast.List)):
            for x in t.elts:
                if isinstance(x, ast.Name):
                    st.env[x.id] = Sym(ast.Name(id=x.id, ctx=ast.Load()))


def _rebuild(e, env):
    """copy of expression e with loaded names replaced by their values' expressions; unchanged
    subtrees are shared (ASTs are never mutated in place)"""
    if isinstance(e, ast.Name):
        if isinstance(e.ctx, ast.Load) and e.id in env:
            return expr_of(env[e.id])
        return e
    if isinstance(e, (ast.Constant, ast.Lambda)):
        return e
    if not isinstance(e, ast.AST):
        return e
    if isinstance(e, ast.Attribute) and isinstance(e.value, ast.Name) and isinstance(e.ctx, ast.Load):
        tv = env.get(e.value.id)
        if isinstance(tv, TupleV) and tv.names and e.attr in tv.names:
            return expr_of(tv.items[tv.names.index(e.attr)])
    changed = False
    vals = {}
    for fld, old in ast.iter_fields(e):
        if isinstance(old, list):
            new = [_rebuild(x, env) if isinstance(x, ast.AST) else x for x in old]
            if any(a is not b for a, b in zip(new, old)):
                changed = True
            vals[fld] = new
        elif isinstance(old, ast.AST) and not isinstance(old, (ast.expr_context, ast.operator, ast.cmpop, ast.boolop, ast.unaryop)):
            new = _rebuild(old, env)
            if new is not old:
                changed = True
            vals[fld] = new
        else:
            vals[fld] = old
    if not changed:
        return e
    return type(e)(**vals)


def _is_default(callee, p, a):
    return callee.defaults.get(p) is a


def _eligible(e):
    """Symbols whose None-ness / emptiness may be a scenario: names, attributes, and calls of the
    attribute-list helpers over such symbols."""
    if isinstance(e, ast.Name):
        return not e.id.startswith('<')
    if isinstance(e, ast.Attribute):
        return _eligible(e.value)
    if isinstance(e, ast.Call) and isinstance(e.func, ast.Name) and e.func.id in ('remove_redundant_attrs',):
        return all(_eligible(a) for a in e.args)
    return False


def _join(a, b):
    if isinstance(a, ListV) and isinstance(b, ListV) and a == b:
        return a
    if isinstance(a, TupleV) and isinstance(b, TupleV) and len(a.items) == len(b.items):
        return TupleV([_join(x, y) for x, y in zip(a.items, b.items)], names=a.names)
    if isinstance(a, Sym) and isinstance(b, Sym) and a == b:
        return a
    if isinstance(a, NoneV) and isinstance(b, NoneV):
        return a
    if isinstance(a, (Sym, NoneV)) and isinstance(b, (Sym, NoneV)):
        # two different scalars: an opaque "either" value
        parts = []
        for x in (a, b):
            e = expr_of(x)
            if isinstance(e, ast.Call) and isinstance(e.func, ast.Name) and e.func.id == PHI:
                parts += list(e.args)
            else:
                parts.append(e)
        uniq = []
        for p in parts:
            if U(p) not in [U(q) for q in uniq]:
                uniq.append(p)
        return Sym(ast.Call(func=ast.Name(id=PHI, ctx=ast.Load()), args=uniq, keywords=[]))
    return Unknown('join of %r and %r' % (a, b))


class _State(object):
    def __init__(self, func, env, sink_names):
        self.func = func
        self.env = env
        self.sink_names = sink_names
        self.pending = set()

    def fork(self):
        s = _State(self.func, {k: (v.copy() if isinstance(v, ListV) else v) for k, v in self.env.items()},
                   self.sink_names)
        return s

    def adopt(self, o):
        self.env = o.env

    def merge(self, a, b):
        """join two branch states into self; returns True when a tracked (list) value was lost"""
        conflict = False
        env = {}
        for k in set(a.env) | set(b.env):
            va, vb = a.env.get(k), b.env.get(k)
            if va is None or vb is None:
                v = va if va is not None else vb
                # defined on one branch only
                if isinstance(v, ListV):
                    env[k] = Unknown('list %s defined on one branch' % k)
                    conflict = True
                else:
                    env[k] = Unknown('%s defined on one branch' % k)
                continue
            if isinstance(va, Unknown) or isinstance(vb, Unknown):
                env[k] = va if isinstance(va, Unknown) else vb
                continue
            j = _join(va, vb)
            if isinstance(j, Unknown):
                if isinstance(va, (ListV, NoneV)) or isinstance(vb, (ListV, NoneV)):
                    conflict = True
            env[k] = j
        self.env = env
        return conflict

    def after_loop(self, body, before, var, base):
        """Lists that existed before the loop and grew inside it receive Many cells over `base`
        (base None: an unrolled element of a literal list); names (re)assigned in the body are
        unknown afterwards."""
        for k, v in body.env.items():
            old = self.env.get(k)
            if isinstance(old, ListV) and isinstance(v, ListV) and k in before:
                new = v.cells[before[k]:]
                kept = v.cells[:before[k]]
                if [c.key() for c in kept] != [c.key() for c in old.cells[:before[k]]]:
                    self.env[k] = Unknown('list %s rewritten in loop' % k)
                    continue
                for c in new:
                    if isinstance(c, One) and base is None:
                        old.cells.append(c)
                    elif isinstance(c, One) and not base.startswith('<') and var is not None:
                        old.cells.append(Many(c.value, var, base))
                    elif isinstance(c, One) and isinstance(c.value, ListV) and var is not None:
                        # a list of rows collected over an opaque iterable: the repetition count is unknown, the
                        # row layout is not
                        old.cells.append(Many(c.value, var, base))
                    elif isinstance(c, One):
                        self.env[k] = Unknown('list %s grows inside a loop over %s' % (k, base))
                        break
                    else:
                        self.env[k] = Unknown('nested repetition in list %s' % k)
                        break
            elif k in self.env and not _same(old, v):
                self.env[k] = Unknown('%s reassigned in loop' % k)


def _same(a, b):
    if isinstance(a, TupleV) and isinstance(b, TupleV):
        return a == b
    if isinstance(a, ListV) and isinstance(b, ListV):
        return a == b
    if isinstance(a, Sym) and isinstance(b, Sym):
        return a == b
    if isinstance(a, NoneV) and isinstance(b, NoneV):
        return True
    return a is b


def _args_key(args):
    if not args:
        return ()
    return tuple(sorted((k, repr(v)) for k, v in args.items()))


def explore(repo, finfo, inline, args=None, limit=729):
    """Run finfo under every discovered scenario. -> list of (scenario, Interp, return value)."""
    cache = repo.__dict__.setdefault('_explore_cache', {})
    ck = (id(finfo), tuple(sorted(inline)), _args_key(args))
    if ck in cache and cache[ck][0] is finfo:
        return cache[ck][1]
    out = _explore(repo, finfo, inline, args, limit)
    cache[ck] = (finfo, out)
    return out


def _explore(repo, finfo, inline, args, limit):
    todo = [{}]
    done = []
    while todo:
        scn = todo.pop()
        it = Interp(repo, scn, inline)
        try:
            rv = it.run(finfo, args)
        except NeedSplit as ns:
            if ns.sym in scn:
                raise AnalysisError('scenario split on %s does not converge in %s' % (ns.sym, finfo.where))
            for k in (NONE, EMPTY, NONEMPTY):
                s2 = dict(scn)
                s2[ns.sym] = k
                todo.append(s2)
            if len(todo) + len(done) > limit:
                raise AnalysisError('too many layout scenarios in %s' % finfo.where)
            continue
        done.append((scn, it, rv))
    return done


def normalise(lv, scn):
    """Cells of a ListV under a scenario: Many over EMPTY/NONE bases vanish."""
    out = []
    for c in lv.cells:
        if isinstance(c, Many):
            k = scn.get(c.base)
            if k in (NONE, EMPTY):
                continue
        out.append(c)
    return out
