"""Sidedness typing: every left/right quantity in this code base carries its side in its name.

An identifier is L / R / neutral from its `_`-separated parts; a name carrying both markers
(e.g. the suffix filter's `r_l`) is neutral. The bare words `left`/`right` as identifiers are not
markers (they are array positions in SuffixFilter._partition) - only inside label literals."""
import ast

L_PARTS = {'l', 'lstring', 'ltokens', 'lrow', 'lstr', 'ltable', 'lid'}
R_PARTS = {'r', 'rstring', 'rtokens', 'rrow', 'rstr', 'rtable', 'rid'}


MIDDLE_CATALOGUE = {
    'cached_l_tokens': 'L', 'ordered_ltokens': 'L', 'ordered_rtokens': 'R',
    'candset_l_key_attr': 'L', 'candset_r_key_attr': 'R',
    'candset_l_key_attr_index': 'L', 'candset_r_key_attr_index': 'R',
}


def side_of_name(name):
    """A name is sided when it *starts* with a side marker (l_..., r_..., ltable..., rstring, ...) or is one
    of the few catalogued names that carry the marker inside. A marker in the middle of a new name
    (e.g. `min_l_len`, a bound on the left length derived from the right one) does not make it sided."""
    name = name.split('@')[0]
    if name in MIDDLE_CATALOGUE:
        return MIDDLE_CATALOGUE[name]
    parts = name.split('_')
    first = parts[0]
    both = any(p in L_PARTS or p.startswith('ltable') for p in parts) and any(p in R_PARTS or p.startswith('rtable') for p in parts)
    if both:
        return None
    if first in L_PARTS or first.startswith('ltable') or first.startswith('ltokens'):
        return 'L'
    if first in R_PARTS or first.startswith('rtable') or first.startswith('rtokens'):
        return 'R'
    # spelled-out leading markers (`left_key_index`); the bare words stay neutral (array positions in _partition)
    if len(parts) > 1 and first == 'left' and 'right' not in parts:
        return 'L'
    if len(parts) > 1 and first == 'right' and 'left' not in parts:
        return 'R'
    return None


def names_in(e):
    out = []
    for n in ast.walk(e):
        if isinstance(n, ast.Name):
            out.append(n.id.split('@')[0])
        elif isinstance(n, ast.Attribute):
            out.append(n.attr)
    return out


def sides(e):
    s = [side_of_name(x) for x in names_in(e)]
    return s.count('L'), s.count('R')


def expr_side(e):
    """'L' / 'R' when the expression names things of one side only, else None."""
    l, r = sides(e)
    if l and not r:
        return 'L'
    if r and not l:
        return 'R'
    return None


def label_side(s):
    if 'left' in s and 'right' not in s:
        return 'L'
    if 'right' in s and 'left' not in s:
        return 'R'
    return None
