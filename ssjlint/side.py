"""Sidedness typing: every left/right quantity in this code base carries its side in its name.

An identifier is L / R / neutral from its `_`-separated parts; a name carrying both markers
(e.g. the suffix filter's `r_l`) is neutral. The bare words `left`/`right` as identifiers are not
markers (they are array positions in SuffixFilter._partition) - only inside label literals."""
import ast

L_PARTS = {'l', 'lstring', 'ltokens', 'lrow', 'lstr', 'ltable', 'lid'}
R_PARTS = {'r', 'rstring', 'rtokens', 'rrow', 'rstr', 'rtable', 'rid'}


def side_of_name(name):
    parts = name.split('_')
    l = any(p in L_PARTS or p.startswith('ltable') or p.startswith('ltokens') for p in parts)
    r = any(p in R_PARTS or p.startswith('rtable') or p.startswith('rtokens') for p in parts)
    if l and not r:
        return 'L'
    if r and not l:
        return 'R'
    return None


def names_in(e):
    out = []
    for n in ast.walk(e):
        if isinstance(n, ast.Name):
            out.append(n.id.split('@')[0])
        elif isinstance(n, ast.Attribute):
            out.append(n.attr)
    return out


def sides(e):
    s = [side_of_name(x) for x in names_in(e)]
    return s.count('L'), s.count('R')


def expr_side(e):
    """'L' / 'R' when the expression names things of one side only, else None."""
    l, r = sides(e)
    if l and not r:
        return 'L'
    if r and not l:
        return 'R'
    return None


def label_side(s):
    if 'left' in s and 'right' not in s:
        return 'L'
    if 'right' in s and 'left' not in s:
        return 'R'
    return None
