"""Run context: obligations, findings, known-findings matching, evidence and replay files."""
import hashlib
import json
import os
import time

from . import AnalysisError

VERIF = os.path.dirname(os.path.dirname(os.path.abspath(__file__)))
KNOWN_FILE = os.path.join(VERIF, 'known_findings.json')


class Finding(object):
    def __init__(self, rule, func, key, loc, msg, detail=None):
        self.rule = rule          # e.g. 'R-FORM/slack'
        self.func = func          # function qualname (module-relative), or '-' for module-level
        self.key = key            # semantic instance key (never a line number)
        self.loc = loc            # file:line (diagnostic only)
        self.msg = msg
        self.detail = detail or {}

    @property
    def ident(self):
        return '%s::%s::%s' % (self.rule, self.func, self.key)

    def as_json(self):
        return {'rule': self.rule, 'function': self.func, 'key': self.key, 'loc': self.loc,
                'message': self.msg, 'detail': self.detail}


class Ctx(object):
    """Collects what one property check evaluated."""

    def __init__(self, repo, prop, tier='quick'):
        self.repo = repo
        self.prop = prop
        self.tier = tier
        self.findings = []
        self.obligations = []      # (rule, func, key, ok, nontrivial)
        self.samples = []
        self.assumptions = []
        self.undecided = []
        self.rule_groups = []
        self.counts = {}
        self.info = []
        self.functions = set()
        self.errors = []

    # ---- recording ----------------------------------------------------------------------
    def check(self, rule, finfo, key, ok, msg='', node=None, detail=None, nontrivial=True, sample=None):
        """Record one obligation; a failed one becomes a finding."""
        func = finfo.qual if hasattr(finfo, 'qual') else str(finfo)
        if hasattr(finfo, 'where'):
            self.functions.add(finfo.where)
        self.obligations.append((rule, func, key, bool(ok), nontrivial))
        self.counts[rule] = self.counts.get(rule, 0) + 1
        if sample is not None and len([s for s in self.samples if s.get('rule') == rule]) < 3:
            loc = finfo.loc(node) if hasattr(finfo, 'loc') else ''
            self.samples.append({'rule': rule, 'function': func, 'instance': key, 'loc': loc, 'holds': bool(ok),
                                 'what': sample})
        if not ok:
            loc = finfo.loc(node) if hasattr(finfo, 'loc') else str(finfo)
            # one finding per identity
            fd = Finding(rule, func, key, loc, msg, detail)
            if fd.ident not in [x.ident for x in self.findings]:
                self.findings.append(fd)
        return bool(ok)

    def floor(self, rule, found, minimum, what):
        """Instance-count floor: a rule matching fewer sites than confirmed by hand is not a pass."""
        if found < minimum:
            raise AnalysisError('%s matched %d %s, expected at least %d - the rule can no longer see its '
                                'instances' % (rule, found, what, minimum))

    def group(self, name):
        if name not in self.rule_groups:
            self.rule_groups.append(name)

    def assume(self, text):
        if text not in self.assumptions:
            self.assumptions.append(text)

    def note_undecided(self, text):
        if text not in self.undecided:
            self.undecided.append(text)


def load_known():
    if not os.path.exists(KNOWN_FILE):
        return []
    with open(KNOWN_FILE) as fh:
        return json.load(fh)


def split_known(prop, findings):
    known = [k for k in load_known() if k.get('status') == 'known' and k.get('property') == prop]
    idx = {(k['rule'], k['key']): k for k in known}
    new, old = [], []
    for f in findings:
        k = idx.get((f.rule, '%s/%s' % (f.func, f.key)))
        if k is not None:
            old.append((f, k))
        else:
            new.append(f)
    return new, old


def write_replay(prop, f):
    d = os.path.join(VERIF, 'replays', prop)
    os.makedirs(d, exist_ok=True)
    h = hashlib.sha1(f.ident.encode()).hexdigest()[:10]
    p = os.path.join(d, '%s-%s.json' % (f.rule.replace('/', '_'), h))
    with open(p, 'w') as fh:
        json.dump({'property': prop, 'finding': f.as_json(), 'ident': f.ident}, fh, indent=1, sort_keys=True)
    return p


def write_evidence(ctx, explanation, wall, seed, n_viol, extra=None, error=None):
    obs = ctx.obligations
    distinct = set((r, fn, k) for r, fn, k, ok, nt in obs if nt)
    cov = {
        'explanation': explanation,
        'rule': 'one evaluation per rule instance (rule, function, semantic key) found in the current source of '
                '/repo; an instance is non-trivial when a construct was located and compared against its '
                'reference (absence-only checks and positive-fixture self-checks are counted as trivial)',
        'obligations': len(obs),
        'discharged': len([o for o in obs if o[3]]),
        'evaluations': max(len(obs), 1),
        'distinct_nontrivial': len(distinct),
        'rule_groups': ctx.rule_groups,
        'instances_per_rule': dict(sorted(ctx.counts.items())),
        'samples': ctx.samples[:40] or [{'note': 'no instance evaluated'}],
        'modules_parsed': len(ctx.repo.modules) if ctx.repo is not None else 0,
        'functions_analysed': len(ctx.functions),
        'source_digest': ctx.repo.digest() if ctx.repo is not None else '',
        'undecided_clauses': ctx.undecided,
        'findings': [f.as_json() for f in ctx.findings],
        'checker_cmd': '/venv/bin/python -m ssjlint --property %s --tier %s' % (ctx.prop, ctx.tier),
        'trusted_base': ['python ast', 'py_stringmatching tokenizers/measures', 'pandas/numpy facts in dtypeai'],
        'exhaustive': False,
    }
    if extra:
        cov.update(extra)
    if error:
        cov['analysis_error'] = error
    ev = {'property_id': ctx.prop, 'tier': ctx.tier, 'seed': seed, 'level': 'other', 'coverage': cov,
          'assumptions': ctx.assumptions, 'wall_s': round(wall, 3), 'violations': n_viol}
    d = os.path.join(VERIF, 'evidence')
    os.makedirs(d, exist_ok=True)
    tmp = os.path.join(d, '.%s.json.tmp' % ctx.prop)
    with open(tmp, 'w') as fh:
        json.dump(ev, fh, indent=1, sort_keys=True, default=str)
    os.replace(tmp, os.path.join(d, '%s.json' % ctx.prop))
