"""Property -> rule groups. Each entry runs the rule instances that decide a clause of that
property on the current tree; the explanation and the undecided clauses go to the evidence."""
from .rules import form

ALL5 = ['COSINE', 'DICE', 'EDIT_DISTANCE', 'JACCARD', 'OVERLAP']
SET4 = ['COSINE', 'DICE', 'JACCARD', 'OVERLAP']


def c01(ctx):
    form.run(ctx, SET4, 'safe')


def c03(ctx):
    form.run(ctx, ['EDIT_DISTANCE'], 'safe')


def c04(ctx):
    form.run(ctx, ALL5, 'safe')


def c13(ctx):
    form.run(ctx, ALL5, 'safe')


def c14(ctx):
    form.run(ctx, ['COSINE', 'DICE', 'JACCARD', 'EDIT_DISTANCE'], 'tight',
             funcs=['get_size_lower_bound', 'get_size_upper_bound'])


PROPS = {
    'C01': (c01, 'Set-similarity joins prune only with the reference bounds (safe side), over one total token '
                 'order, and every unpruned candidate reaches verification.'),
    'C03': (c03, 'Edit-distance join: reference prefix length, forced bag mode, Levenshtein verification on the '
                 'two strings, inclusive length window.'),
    'C04': (c04, 'Filters apply the reference bounds in the safe direction and drop only under the guards their '
                 'technique defines.'),
    'C13': (c13, 'Operator partition by non-interference of comp_op with pruning; refinement/transposition only '
                 'through their prerequisites.'),
    'C14': (c14, 'Size bounds are not looser than the reference; candidates arise only from shared tokens.'),
}

UNDECIDED = {
    'C01': ['prefix-filter lemma itself', 'floating-point error below 5e-5 in threshold*size',
            'py_stringmatching tokenizers and measures', 'Cython path (not built, not parsed)'],
    'C03': ['count-filter bound over q-gram bags', 'Levenshtein implementation', 'Cython path'],
    'C04': ['prefix-filter lemma', "suffix filter's recursive Hamming estimate (_est_hamming_dist_lower_bound, "
            "_partition, _binary_search) is algorithmic, not structural: undecided", 'Cython path'],
    'C13': ['transposition and threshold refinement are covered only through C01/C02 prerequisites'],
    'C14': ['that the reference bounds are the tightest possible (arithmetic fact, not structural)'],
}


_T = ('Static necessary-condition analysis: the named structural clauses are decided for all inputs at once from '
      'the current source; the arithmetic/algorithmic clauses listed under undecided_clauses in the evidence are not.')
LEVEL_TEXT = {k: PROPS[k][1] + ' ' + _T for k in PROPS}
TECHNIQUE = {
    'C01': 'static analysis: rational normal form of pruning formulas ordered against reference bounds (ast)',
    'C03': 'static analysis: formula normal forms + flag typestate + verification dataflow (ast)',
    'C04': 'static analysis: formula normal forms + decision tables compared as Boolean functions (ast)',
    'C13': 'static analysis: non-interference of comp_op with pruning + formula normal forms (ast)',
    'C14': 'static analysis: formula normal forms (tight side) + candidate provenance (ast)',
}
_NYB = 'check not built yet in this phase (planned, see DESIGN.md section 5)'
NOT_APPLICABLE = {
    'C07': 'relation between the outputs of three independently written paths over all inputs; follows from '
           'C01, C02, C04, C05 and has no structural clause of its own (DESIGN.md section 6)',
}
for _p in ['C%02d' % i for i in range(1, 18)]:
    if _p not in PROPS and _p not in NOT_APPLICABLE:
        NOT_APPLICABLE[_p] = _NYB
