"""Property -> rule groups. Each entry runs the rule instances that decide a clause of that
property on the current tree; the explanation and the undecided clauses go to the evidence."""
from .rules import (form, split, shape, flag, valid, verify, cand, once, order, dt, missempty, effect, sides, wire,
                    mask, conv, prof, suffix)

def _g(ctx, fn, *a, **k):
    """run one rule group; a group that can no longer recognise the source is recorded (exit 2) without
    hiding what the other groups find"""
    from . import AnalysisError
    try:
        fn(ctx, *a, **k)
    except AnalysisError as e:
        ctx.errors.append('%s: %s' % (fn.__module__.split('.')[-1], e))


ALL5 = ['COSINE', 'DICE', 'EDIT_DISTANCE', 'JACCARD', 'OVERLAP']
SET4 = ['COSINE', 'DICE', 'JACCARD', 'OVERLAP']
SET_JOINS = ['cosine', 'dice', 'jaccard', 'overlap', 'overlap_coefficient']


def c01(ctx):
    _g(ctx, form.run, SET4, 'safe')
    _g(ctx, wire.run, rows=False, arrays=False)
    _g(ctx, cand.run, unique=False, provenance=False)
    _g(ctx, once.run, extrema=True, caches=True)
    _g(ctx, order.run)
    _g(ctx, split.run)
    _g(ctx, missempty.run, empty=False)
    _g(ctx, verify.run, kinds=['set', 'oc', 'count'], opmap=False, simtable=False)
    _g(ctx, effect.run, mutations=False, globals_=True, labels=False)


def c02(ctx):
    _g(ctx, verify.run, kinds=['set', 'oc', 'count'])
    _g(ctx, shape.run, builders=True, cross=False, ids=False)
    _g(ctx, sides.run)
    _g(ctx, wire.run, ordering=False, same=False, measure=True)
    _g(ctx, cand.run, slices=False, provenance=False, window=False, prune=False, consume=False, early=False, collect=True)
    _g(ctx, order.run)      # a token dropped by the ordering inflates the recomputed score
    _g(ctx, once.run, which=['row_id'], caches=True)
    _g(ctx, split.run)


def c03(ctx):
    _g(ctx, form.run, ['EDIT_DISTANCE'], 'safe')
    _g(ctx, flag.run, joins=['edit_distance'], f4=False)
    _g(ctx, verify.run, kinds=['edit'], window=True)
    _g(ctx, wire.run, rows=False, arrays=False)
    _g(ctx, cand.run, window=False, prune=False, consume=False)
    _g(ctx, once.run, which=['row_id', 'order_idx', 'table_index'], caches=True)
    _g(ctx, order.run)
    _g(ctx, split.run)
    _g(ctx, missempty.run, empty=False)
    _g(ctx, effect.run, mutations=False, globals_=True, labels=False)


def c04(ctx):
    _g(ctx, form.run, ALL5, 'safe')
    _g(ctx, dt.run, pairs=True)
    _g(ctx, cand.run, sizes=True)
    _g(ctx, order.run)
    _g(ctx, mask.run, candset=True)
    _g(ctx, once.run, extrema=True, pairpos=True, appends='filter', caches=True)
    _g(ctx, suffix.run)
    _g(ctx, split.run)
    _g(ctx, effect.run, mutations=False, globals_=True, labels=False)
    # "filter_tables lists it": the surviving pair must be emitted under its own keys, from the strings of its own rows
    _g(ctx, wire.run, ordering=True, same=True, rows=True, arrays=True, measure=False)
    _g(ctx, sides.run, only=tuple('py_stringsimjoin/filter/%s.py' % m for m in
                                  ('size_filter', 'prefix_filter', 'position_filter', 'suffix_filter', 'overlap_filter', 'filter')))
    _g(ctx, shape.run, builders=True, cross=False, ids=False)


def c05(ctx):
    _g(ctx, verify.run, kinds=['matcher'], simtable=False)
    _g(ctx, mask.run, candset=False, matcher=True)
    _g(ctx, shape.run, builders=True, cross=False, ids=False)
    _g(ctx, sides.run)
    _g(ctx, split.run)
    _g(ctx, once.run, which=[], appends='filter')
    _g(ctx, missempty.run, empty=False)
    _g(ctx, effect.run, globals_=False, labels=True)


def c06(ctx):
    _g(ctx, mask.run, candset=True)
    _g(ctx, dt.run, pairs=True)
    _g(ctx, verify.run, kinds=['count'], simtable=True)
    _g(ctx, wire.run, ordering=False, same=False, rows=False, arrays=False, measure=False)    # constructor stores
    _g(ctx, cand.run, slices=False, window=False, prune=False, consume=False)
    _g(ctx, split.run)
    _g(ctx, once.run, which=['InvertedIndex.build'], appends='filter', caches=True)
    _g(ctx, sides.run)


def c08(ctx):
    _g(ctx, missempty.run, empty=False)
    _g(ctx, shape.run, builders=True, cross=True, ids=False)
    _g(ctx, dt.run, pairs=True)
    _g(ctx, verify.run, kinds=['matcher'], opmap=False, simtable=False)
    _g(ctx, mask.run, candset=True, matcher=True)
    _g(ctx, split.run, table=False)
    # ... and every caller hands the generator its own side's table, key, join attribute and output attributes
    _g(ctx, sides.run, only=('py_stringsimjoin/utils/missing_value_handler.py',),
       callees=('py_stringsimjoin/utils/missing_value_handler.py',))


def c09(ctx):
    _g(ctx, missempty.run, miss=False)
    _g(ctx, dt.run, pairs=True)
    _g(ctx, wire.run, ordering=False, rows=True, arrays=False, measure=False)
    _g(ctx, once.run, which=['row_id'], caches=True)
    _g(ctx, verify.run, kinds=['set', 'oc'], opmap=False, simtable=False)
    _g(ctx, shape.run, builders=True, cross=False, ids=False)
    _g(ctx, split.run, table=False)
    # the empty pairs are emitted from inside the probe loop: a right row the loop steps over gets none
    _g(ctx, cand.run, slices=False, unique=False, provenance=False, window=False, prune=False, consume=False, early=False,
       collect=False)


def c10(ctx):
    _g(ctx, split.run)
    _g(ctx, shape.run, builders=False, cross=False, ids=True)
    _g(ctx, order.run)
    _g(ctx, effect.run, mutations=False, globals_=True, labels=True)
    _g(ctx, wire.run, ordering=True, same=False, rows=False, arrays=True, measure=False)
    _g(ctx, once.run, which=[], extrema=True)
    # 'repeating the call': an entry point that leaves the caller's tokenizer in another mode than it found it makes the
    # next call with that tokenizer (any entry point) return something else
    _g(ctx, flag.run, f4=False)


def c11(ctx):
    _g(ctx, shape.run)
    _g(ctx, wire.run, ordering=False, same=False, rows=True, arrays=True, measure=False)
    _g(ctx, sides.run)
    _g(ctx, dt.run, pairs=False, helpers=True)
    _g(ctx, missempty.run, empty=False)


def c12(ctx):
    _g(ctx, flag.run)
    _g(ctx, effect.run)


def c13(ctx):
    _g(ctx, form.run, ALL5, 'safe')
    _g(ctx, verify.run, ni=True, simtable=False, window=True)
    # prerequisites of transposition / refinement: whatever loses or invents a pair on one side only
    _g(ctx, once.run, extrema=True, caches=True)
    _g(ctx, cand.run, unique=True, provenance=False)
    _g(ctx, order.run)
    _g(ctx, wire.run, rows=False, arrays=False)
    _g(ctx, effect.run, mutations=False, globals_=True, labels=False)


def c14(ctx):
    _g(ctx, form.run, ['COSINE', 'DICE', 'JACCARD', 'EDIT_DISTANCE'], 'tight',
       funcs=['get_size_lower_bound', 'get_size_upper_bound'])
    _g(ctx, dt.run, pairs=True)
    _g(ctx, cand.run, slices=True, unique=False, provenance=True, window=True, prune=True, consume=False, early=False, sizes=True)
    # Position subset of Prefix and of Size presupposes one shared token order and aligned indexes
    _g(ctx, order.run)
    _g(ctx, once.run, extrema=True)
    _g(ctx, wire.run, ordering=True, same=True, rows=False, arrays=False, measure=False)
    _g(ctx, missempty.run, miss=False)
    _g(ctx, effect.run, mutations=False, globals_=True, labels=False)


def c15(ctx):
    _g(ctx, valid.run)
    _g(ctx, flag.run, f4=False)
    _g(ctx, dt.run, pairs=False, validators=True, num_procs=True)
    _g(ctx, conv.run, gate=True, converter=False)
    _g(ctx, prof.check_div)
    _g(ctx, sides.run)
    _g(ctx, split.run, table=False)
    _g(ctx, effect.run, globals_=False, labels=False)


def c16(ctx):
    _g(ctx, conv.run, gate=False, converter=True)
    _g(ctx, effect.run, globals_=False, labels=False)


def c17(ctx):
    _g(ctx, prof.run, div=True)
    _g(ctx, once.run, which=[], appends='profiler')
    _g(ctx, valid.run, only=['profile_table_for_join'])


PROPS = {
    'C01': (c01, 'Set-similarity joins prune only with the reference bounds (safe side), over one total token '
                 'order, and every unpruned candidate reaches verification.'),
    'C02': (c02, 'An emitted row passed the comparison with the emitted score, computed by the named measure on the '
                 'tokens of the rows whose keys are emitted; rows have the header layout.'),
    'C03': (c03, 'Edit-distance join: reference prefix length, forced bag mode, Levenshtein verification on the '
                 'two strings, inclusive length window.'),
    'C04': (c04, 'Filters apply the reference bounds in the safe direction and drop only under the guards their '
                 'technique defines.'),
    'C05': (c05, 'apply_matcher keeps a candidate row iff the comparison on sim_function(left value, right value) '
                 'holds (or it is missing and allow_missing), emits that score and the row\'s own _id, in order.'),
    'C06': (c06, 'OverlapFilter emits a probed candidate iff comp(overlap count, overlap_size); filter_candset appends '
                 'exactly one mask entry per candidate row.'),
    'C08': (c08, 'Missing values: rows with a missing join value are dropped before indexing, missing pairs are '
                 'generated once with the header layout (NaN score), filter_pair/matcher test isnull first.'),
    'C09': (c09, 'Empty token sets: the empty branch runs exactly under allow_empty and no right tokens, pairs the row '
                 'with the empty left rows the index recorded under that same flag (score 1.0), and nothing else emits them.'),
    'C10': (c10, 'Serial and parallel twins do the same per-row work on a contiguous partition of the probe side; '
                 '_id is numbered once at the end.'),
    'C11': (c11, 'Every emitted row has exactly the header layout, each cell read from the row and column the '
                 'header names, in every branch (normal, empty, missing).'),
    'C12': (c12, 'Tokenizer flag typestate: flipped only around the work and restored on every exit; nothing else '
                 'writes inputs or shared state.'),
    'C13': (c13, 'Operator partition by non-interference of comp_op with pruning; refinement/transposition only '
                 'through their prerequisites.'),
    'C14': (c14, 'Size bounds are not looser than the reference; candidates arise only from shared tokens.'),
    'C15': (c15, 'Documented precondition checks are present, unconditional, before any work, on the right '
                 'argument; no validation failure escapes while the tokenizer mode is switched.'),
    'C16': (c16, 'Converters: dtype dispatch over a finite kind domain, NaN-preserving element mapping, return kinds per '
                 'mode, mutation only under inplace, no lost update.'),
    'C17': (c17, 'Profiler: counts derive from unique()/isnull() of the profiled column, comment predicates depend on the '
                 'exact counts only, one row per attribute.'),
}

UNDECIDED = {
    'C01': ['prefix-filter lemma itself', 'floating-point error below 5e-5 in threshold*size',
            'py_stringmatching tokenizers and measures', 'Cython path (not built, not parsed)'],
    'C02': ['the value the py_stringmatching measure returns', 'Cython path'],
    'C03': ['count-filter bound over q-gram bags', 'Levenshtein implementation', 'Cython path'],
    'C04': ['prefix-filter lemma', "suffix filter: R-SUFFIX decides the budget, the window, the rejections and parts of "
            "_partition, the position search, the first estimate, and that every value the estimator returns (and every "
            "budget it hands down) has the form of a sum of valid lower bounds; the underlying facts H(l,r) >= H(l_l,r_l) + "
            "H(l_r,r_r) + diff and H(x,y) >= ||x|-|y|| for token lists ordered by one global order are the algorithm's "
            "lemma and are taken as given", 'Cython path'],
    'C05': ['pandas itertuples/zip semantics (trusted)', 'what sim_function returns'],
    'C06': ['that counting postings equals set overlap for bag tokenizers (excluded by the property)'],
    'C08': ['pandas isnull/dropna semantics (trusted)'],
    'C09': ['what a tokenizer returns for delimiter-only strings (py_stringmatching, trusted)'],
    'C10': ['invariance under row permutation as such', 'joblib scheduling'],
    'C11': ['pandas DataFrame construction semantics (trusted)'],
    'C12': ['mutation through objects the analysis cannot type (opaque third-party calls)'],
    'C13': ['transposition and threshold refinement are covered only through C01/C02 prerequisites'],
    'C14': ['that the reference bounds are the tightest possible (arithmetic fact, not structural)'],
    'C15': ['general crash-freedom of every valid call (termination/exception freedom is not structural)'],
    'C16': ['the textual form str() gives a float', 'pandas astype/apply semantics (trusted)'],
    'C17': ['pandas unique()/isnull() semantics (trusted)'],
}

_T = ('Static necessary-condition analysis: the named structural clauses are decided for all inputs at once from '
      'the current source; the arithmetic/algorithmic clauses listed under undecided_clauses in the evidence are not.')
LEVEL_TEXT = {k: PROPS[k][1] + ' ' + _T for k in PROPS}
TECHNIQUE = {
    'C01': 'static analysis: rational normal form of pruning formulas ordered against reference bounds; '
           'serial/parallel twin comparison (ast, reaching definitions)',
    'C02': 'static analysis: abstract interpretation of row/header layouts per None/empty scenario (ast)',
    'C03': 'static analysis: formula normal forms + tokenizer-flag typestate over the CFG (ast)',
    'C04': 'static analysis: formula normal forms + decision tables compared as Boolean functions (ast)',
    'C05': 'static analysis: path enumeration of the matcher loop body with symbolic substitution; row layouts',
    'C06': 'static analysis: comparator-guard path analysis of OverlapFilter; once-per-row mask append; provenance',
    'C08': 'static analysis: row-layout abstract interpretation incl. missing-value handler and cross-frame headers',
    'C09': 'static analysis: path conditions of the empty branch compared as Boolean functions; provenance of the '
           'empty-record list; decision tables of filter_pair',
    'C10': 'static analysis: twin-call argument comparison, symbolic contiguity of split_table, CFG dominance of _id, tokenizer-flag typestate',
    'C11': 'static analysis: row-layout abstract interpretation (cells aligned with header cells by side/attribute)',
    'C12': 'static analysis: typestate abstract interpretation of the tokenizer flag over the CFG + '
           'interprocedural raise-guard refutation',
    'C13': 'static analysis: non-interference of comp_op with pruning + formula normal forms (ast)',
    'C14': 'static analysis: formula normal forms (tight side) + candidate provenance (ast)',
    'C15': 'static analysis: obligation table vs resolved validator calls, path conditions, CFG dominance, dtype-kind '
           'abstract domain, validator decision tables',
    'C16': 'static analysis: abstract interpretation over dtype kinds, decision tables, lost-update and ownership rules',
    'C17': 'static analysis: provenance of the reported counts, taint from round() to branch tests, decision tables',
}
_NYB = 'check not built yet in this phase (planned, see DESIGN.md section 5)'
NOT_APPLICABLE = {
    'C07': 'relation between the outputs of three independently written paths over all inputs; follows from '
           'C01, C02, C04, C05 and has no structural clause of its own (DESIGN.md section 6)',
}
for _p in ['C%02d' % i for i in range(1, 18)]:
    if _p not in PROPS and _p not in NOT_APPLICABLE:
        NOT_APPLICABLE[_p] = _NYB
