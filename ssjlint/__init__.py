"""ssjlint - repository-specific static analysis for py_stringsimjoin (stdlib ast only).

Nothing in this package imports or executes py_stringsimjoin; every verdict is computed
from the source text of /repo's current working tree.
"""

REPO_ROOT = '/repo'
PKG = 'py_stringsimjoin'


class AnalysisError(Exception):
    """The source can no longer be recognised by a rule (vanished anchor, unmodelled idiom).

    Mapped to exit code 2 / `ANALYSIS-ERROR`, never to a VIOLATION."""
