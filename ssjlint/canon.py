"""Canonical names for the repository's private functions.

The rules talk about parameters of private workers by name (`show_progress`, `ltable`, `l_key_attr_index` ...).
Private names are free to change in a refactoring, so before the rules run every private function
(leading underscore, plus the internal worker `set_sim_join`) is put back under the signature recorded in
`canon_sigs.json` (taken from the tree the rules were confirmed on): parameters are alpha-renamed BY POSITION
throughout the function body and at keyword call sites, and a module-level worker that disappeared under its
catalogued name is recognised by its role - the one private function of that module that is dispatched through
joblib's `delayed(...)` and has the same arity - and
given its catalogued name back. Only names change; positions, structure and line numbers stay. A renaming that
would capture an existing local is skipped (the rules then see the names as written).

Public names (functions, methods and parameters without leading underscore, except the listed workers) are
API and are never touched."""
import ast
import json
import os

_SIGS = None


def sigs():
    global _SIGS
    if _SIGS is None:
        with open(os.path.join(os.path.dirname(os.path.abspath(__file__)), 'canon_sigs.json')) as fh:
            _SIGS = json.load(fh)
    return _SIGS


def collect(repo_sources):
    """(development aid) signatures of the private functions of a source map -> {relpath: {qual: [params]}}"""
    out = {}
    for rel, src in sorted(repo_sources.items()):
        tree = ast.parse(src)
        ent = {}
        for n in tree.body:
            if isinstance(n, ast.FunctionDef) and (n.name.startswith('_') or n.name == 'set_sim_join'):
                ent[n.name] = [a.arg for a in n.args.args]
            if isinstance(n, ast.ClassDef):
                for b in n.body:
                    if isinstance(b, ast.FunctionDef) and b.name.startswith('_') and not b.name.startswith('__'):
                        ent['%s.%s' % (n.name, b.name)] = [a.arg for a in b.args.args]
        if ent:
            out[rel] = ent
    return out


def _delayed_targets(tree):
    out = set()
    for n in ast.walk(tree):
        if isinstance(n, ast.Call) and isinstance(n.func, ast.Name) and n.func.id == 'delayed' and n.args and isinstance(n.args[0], ast.Name):
            out.add(n.args[0].id)
    return out


class _Ren(ast.NodeTransformer):
    def __init__(self, m):
        self.m = m

    def visit_Name(self, n):
        if n.id in self.m:
            n.id = self.m[n.id]
        return n

    def visit_arg(self, n):
        if n.arg in self.m:
            n.arg = self.m[n.arg]
        return n


def _rename_params(fn, want):
    """alpha-rename the positional parameters of fn to `want`; -> {old: new} (empty when nothing to do or unsafe)"""
    have = [a.arg for a in fn.args.args]
    if len(have) != len(want) or have == want:
        return {}
    if sorted(have) == sorted(want):
        return {}                      # same names in another order: a permutation, handled by _permute
    m = {h: w for h, w in zip(have, want) if h != w}
    used = {n.id for n in ast.walk(fn) if isinstance(n, ast.Name)} | {a.arg for a in ast.walk(fn) if isinstance(a, ast.arg)}
    # capture: a new name already in use inside the function for something else
    for old, new in m.items():
        if new in used and new not in m:
            return {}
    # simultaneous renaming (a swap of two parameter names is possible)
    tmp = {old: '__canon_%d__' % i for i, old in enumerate(m)}
    _Ren(tmp).visit(fn)
    _Ren({tmp[old]: new for old, new in m.items()}).visit(fn)
    return m


def _permutation(fn, want):
    """the parameter names are the catalogued ones in another order -> the order as written; None otherwise"""
    have = [a.arg for a in fn.args.args]
    if have != want and sorted(have) == sorted(want) and len(set(have)) == len(have) \
            and not fn.args.vararg and not fn.args.kwarg and not fn.args.kwonlyargs:
        return have
    return None


def _apply_permutations(trees, perms, S):
    """put a permuted private signature back into the catalogued order: the def's parameter list (defaults follow
    their parameters) and the positional arguments of every call of that function in its own module - direct,
    `delayed(f)(..)`, `self.f(..)` / `<obj>.f(..)` for methods. A call with a starred argument is left alone only if
    no positional argument follows the star; otherwise the permutation is abandoned for that function."""
    for (rel, name), (have, fn) in perms.items():
        want = None
        for q, w in S[rel].items():
            if q.split('.')[-1] == name and sorted(w) == sorted(have):
                want = w
        if want is None:
            continue
        is_method = bool(want) and want[0] == 'self'
        tree = trees[rel]
        calls = []
        ok = True
        for n in ast.walk(tree):
            if not isinstance(n, ast.Call):
                continue
            f = n.func
            if isinstance(f, ast.Call) and isinstance(f.func, ast.Name) and f.func.id == 'delayed' and f.args:
                f = f.args[0]
            nm = f.id if isinstance(f, ast.Name) else f.attr if isinstance(f, ast.Attribute) else None
            if nm != name:
                continue
            if any(isinstance(a, ast.Starred) for a in n.args):
                ok = False
                break
            calls.append(n)
        if not ok:
            continue
        h = have[1:] if is_method else have
        w = want[1:] if is_method else want
        for n in calls:
            by_name = {}
            for p_, a in zip(h, n.args):
                by_name[p_] = a
            new_args = []
            for p_ in w:
                if p_ in by_name:
                    new_args.append(by_name[p_])
                else:
                    break
            rest = [p_ for p_ in w[len(new_args):] if p_ in by_name]
            # parameters that were passed positionally but now come after a gap become keywords
            n.args = new_args
            for p_ in rest:
                n.keywords.append(ast.keyword(arg=p_, value=by_name[p_]))
        # the def itself
        args = fn.args.args
        nd = len(fn.args.defaults)
        defaults = dict(zip([a.arg for a in args[len(args) - nd:]], fn.args.defaults))
        by = {a.arg: a for a in args}
        fn.args.args = [by[p_] for p_ in want]
        # defaults must stay a suffix: if they do not, turn nothing (keep the order as written)
        tail = [p_ for p_ in want if p_ in defaults]
        if tail and want[len(want) - len(tail):] != tail:
            fn.args.args = args
            continue
        fn.args.defaults = [defaults[p_] for p_ in tail]


def _nt_fields(call):
    if not (isinstance(call, ast.Call) and ast.unparse(call.func).split('.')[-1] == 'namedtuple' and len(call.args) >= 2):
        return None
    spec = call.args[1]
    if isinstance(spec, ast.Constant) and isinstance(spec.value, str):
        return spec.value.replace(',', ' ').split()
    if isinstance(spec, (ast.List, ast.Tuple)) and all(isinstance(e, ast.Constant) and isinstance(e.value, str) for e in spec.elts):
        return [e.value for e in spec.elts]
    return None


def erase_private_namedtuples(trees):
    """A private (underscore) module-level namedtuple used as a record for several results is read as the plain
    tuple it is: `return _N(a, b, c)` -> `return (a, b, c)`; a local bound once to a call and used only as
    `x.<field of _N>` becomes a tuple unpack into `x__<field>` names. Values that escape (passed on, indexed,
    compared as a whole) are left alone."""
    notes = []
    for rel, tree in trees.items():
        nts = {}
        for n in tree.body:
            if isinstance(n, ast.Assign) and len(n.targets) == 1 and isinstance(n.targets[0], ast.Name) \
                    and n.targets[0].id.startswith('_'):
                f = _nt_fields(n.value)
                if f:
                    nts[n.targets[0].id] = f
        if not nts:
            continue
        funcs = [n for n in ast.walk(tree) if isinstance(n, ast.FunctionDef)]
        # which functions return which namedtuple (all value returns are constructor calls of one class)
        returns_nt = {}
        for fn in funcs:
            rets = [r for r in ast.walk(fn) if isinstance(r, ast.Return) and r.value is not None]
            kinds = set(r.value.func.id if isinstance(r.value, ast.Call) and isinstance(r.value.func, ast.Name) and r.value.func.id in nts
                        else None for r in rets)
            if rets and len(kinds) == 1 and None not in kinds:
                returns_nt[fn.name] = kinds.pop()
        for fn in funcs:
            parents = {}
            for n in ast.walk(fn):
                for c in ast.iter_child_nodes(n):
                    parents[id(c)] = n
            for st in [x for x in ast.walk(fn) if isinstance(x, ast.Assign) and len(x.targets) == 1 and isinstance(x.targets[0], ast.Name)
                       and isinstance(x.value, ast.Call)]:
                x = st.targets[0].id
                callee = st.value.func
                cname = callee.id if isinstance(callee, ast.Name) else callee.attr if isinstance(callee, ast.Attribute) else None
                nt = returns_nt.get(cname) or (cname if cname in nts else None)
                if nt is None:
                    continue
                stores = [n for n in ast.walk(fn) if isinstance(n, ast.Name) and n.id == x and isinstance(n.ctx, ast.Store)]
                loads = [n for n in ast.walk(fn) if isinstance(n, ast.Name) and n.id == x and isinstance(n.ctx, ast.Load)]
                if len(stores) != 1 or not loads:
                    continue
                if not all(isinstance(parents.get(id(n)), ast.Attribute) and parents[id(n)].attr in nts[nt]
                           and isinstance(parents[id(n)].ctx, ast.Load) for n in loads):
                    continue
                fields = nts[nt]
                if any(('%s__%s' % (x, f_)) in {n.id for n in ast.walk(fn) if isinstance(n, ast.Name)} for f_ in fields):
                    continue
                for n in loads:
                    a = parents[id(n)]
                    new = ast.copy_location(ast.Name(id='%s__%s' % (x, a.attr), ctx=ast.Load()), a)
                    pa = parents.get(id(a))
                    for fld, old in ast.iter_fields(pa):
                        if old is a:
                            setattr(pa, fld, new)
                        elif isinstance(old, list):
                            for i, o in enumerate(old):
                                if o is a:
                                    old[i] = new
                    parents[id(new)] = pa
                if nt != cname:
                    st.targets[0] = ast.copy_location(ast.Tuple(elts=[ast.Name(id='%s__%s' % (x, f_), ctx=ast.Store()) for f_ in fields],
                                                                ctx=ast.Store()), st.targets[0])
                else:
                    # x = _N(a, b, c) directly: bind the fields one by one
                    st.targets[0] = ast.copy_location(ast.Tuple(elts=[ast.Name(id='%s__%s' % (x, f_), ctx=ast.Store()) for f_ in fields],
                                                                ctx=ast.Store()), st.targets[0])
                notes.append('%s:%s `%s` read as the tuple of fields %s' % (rel, fn.name, x, fields))
        # constructor calls with all fields given -> tuple displays, but only for a class none of whose values is still
        # read through a field name somewhere in the module (a record that is passed around keeps its constructor; the
        # analyses understand `<ctor call>.field` as well)
        still = set()
        for n in ast.walk(tree):
            if isinstance(n, ast.Attribute) and isinstance(n.value, ast.Name):
                for nm, flds in nts.items():
                    if n.attr in flds:
                        still.add(nm)
        nts = {k: v for k, v in nts.items() if k not in still}
        for n in ast.walk(tree):
            for fld, old in list(ast.iter_fields(n)):
                items = old if isinstance(old, list) else [old]
                for i, o in enumerate(items):
                    if isinstance(o, ast.Call) and isinstance(o.func, ast.Name) and o.func.id in nts \
                            and not any(isinstance(a, ast.Starred) for a in o.args):
                        fields = nts[o.func.id]
                        vals = dict(zip(fields, o.args))
                        for k in o.keywords:
                            if k.arg in fields:
                                vals[k.arg] = k.value
                        if set(vals) != set(fields):
                            continue
                        tup = ast.copy_location(ast.Tuple(elts=[vals[f_] for f_ in fields], ctx=ast.Load()), o)
                        if isinstance(old, list):
                            old[i] = tup
                        else:
                            setattr(n, fld, tup)
    return notes


def inline_self_aliases(trees):
    """`x = self.attr` / `x = self.attr = <new object>` with x bound once and self.attr not rebound afterwards in the
    function: x is another name for the attribute; the attribute is what the rules look for"""
    notes = []
    for rel, tree in trees.items():
        for fn in [n for n in ast.walk(tree) if isinstance(n, ast.FunctionDef) and n.args.args and n.args.args[0].arg == 'self']:
            stores = {}
            for n in ast.walk(fn):
                if isinstance(n, ast.Name) and isinstance(n.ctx, (ast.Store, ast.Del)):
                    stores[n.id] = stores.get(n.id, 0) + 1
            attr_stores = {}
            for n in ast.walk(fn):
                if isinstance(n, ast.Attribute) and isinstance(n.ctx, ast.Store) and isinstance(n.value, ast.Name) and n.value.id == 'self':
                    attr_stores[n.attr] = attr_stores.get(n.attr, 0) + 1
            alias = {}
            for st in list(fn.body):
                if not isinstance(st, ast.Assign):
                    continue
                names = [t for t in st.targets if isinstance(t, ast.Name)]
                attrs = [t for t in st.targets if isinstance(t, ast.Attribute) and isinstance(t.value, ast.Name) and t.value.id == 'self']
                if len(names) == 1 and len(attrs) == 1 and len(st.targets) == 2 and stores.get(names[0].id) == 1 \
                        and attr_stores.get(attrs[0].attr) == 1 and names[0].id not in [a.arg for a in fn.args.args]:
                    alias[names[0].id] = attrs[0].attr
                    st.targets = [attrs[0]]
                elif len(st.targets) == 1 and len(names) == 1 and isinstance(st.value, ast.Attribute) and isinstance(st.value.value, ast.Name) \
                        and st.value.value.id == 'self' and stores.get(names[0].id) == 1 and not attr_stores.get(st.value.attr) \
                        and names[0].id not in [a.arg for a in fn.args.args]:
                    alias[names[0].id] = st.value.attr
                    fn.body[fn.body.index(st)] = ast.copy_location(ast.Pass(), st)
            if not alias:
                continue

            class R(ast.NodeTransformer):
                def visit_Name(s_, n):
                    if isinstance(n.ctx, ast.Load) and n.id in alias:
                        return ast.copy_location(ast.Attribute(value=ast.Name(id='self', ctx=ast.Load()), attr=alias[n.id], ctx=ast.Load()), n)
                    return n
            R().visit(fn)
            ast.fix_missing_locations(fn)
            notes.append('%s:%s aliases %s read as attributes of self' % (rel, fn.name, sorted(alias)))
    return notes


def canonicalise(trees):
    """trees: {relpath: ast.Module}; renames in place. -> list of human-readable notes"""
    notes = erase_private_namedtuples(trees)
    notes += inline_self_aliases(trees)
    perms = {}            # (relpath, function name) -> (have order, FunctionDef) for permuted signatures
    fn_renames = {}       # old function name -> canonical name (module-level workers), across modules
    kw_renames = {}       # canonical function name -> {old kw: new kw}
    S = sigs()
    for rel, ent in S.items():
        tree = trees.get(rel)
        if tree is None:
            continue
        mod_funcs = {n.name: n for n in tree.body if isinstance(n, ast.FunctionDef)}
        classes = {n.name: n for n in tree.body if isinstance(n, ast.ClassDef)}
        catalogued = {q for q in ent if '.' not in q}
        for qual, want in ent.items():
            fn = None
            if '.' in qual:
                cn, mn = qual.split('.', 1)
                c = classes.get(cn)
                if c is not None:
                    for b in c.body:
                        if isinstance(b, ast.FunctionDef) and b.name == mn:
                            fn = b
            else:
                fn = mod_funcs.get(qual)
                if fn is None:
                    # renamed worker: by role
                    free = [f for nm, f in mod_funcs.items() if nm not in catalogued and nm.startswith('_')
                            and len(f.args.args) == len(want)]
                    dl = _delayed_targets(tree)
                    cand = [f for f in free if f.name in dl]
                    if len(cand) == 1:
                        fn = cand[0]
                        old = fn.name
                        fn_renames[old] = qual
                        notes.append('%s: private worker `%s` is treated as `%s`' % (rel, old, qual))
            if fn is None:
                continue
            perm = _permutation(fn, want)
            if perm is not None:
                perms[(rel, qual.split('.')[-1])] = (perm, fn)
                notes.append('%s:%s parameters read in the catalogued order' % (rel, qual))
            m = _rename_params(fn, want)
            if m:
                kw_renames.setdefault(qual.split('.')[-1], {}).update(m)
                notes.append('%s:%s parameters %s read as %s' % (rel, qual, sorted(m), [m[k] for k in sorted(m)]))
    if perms:
        _apply_permutations(trees, perms, S)
    if fn_renames or kw_renames:
        for rel, tree in trees.items():
            for n in ast.walk(tree):
                if isinstance(n, ast.FunctionDef) and n.name in fn_renames and n in tree.body:
                    n.name = fn_renames[n.name]
                elif isinstance(n, ast.Name) and n.id in fn_renames:
                    n.id = fn_renames[n.id]
                elif isinstance(n, ast.alias) and n.name in fn_renames:
                    n.name = fn_renames[n.name]
            for n in ast.walk(tree):
                if isinstance(n, ast.Call):
                    f = n.func
                    if isinstance(f, ast.Call) and isinstance(f.func, ast.Name) and f.func.id == 'delayed' and f.args:
                        f = f.args[0]
                    nm = f.id if isinstance(f, ast.Name) else f.attr if isinstance(f, ast.Attribute) else None
                    if nm in kw_renames:
                        for k in n.keywords:
                            if k.arg in kw_renames[nm]:
                                k.arg = kw_renames[nm][k.arg]
    return notes
