"""Canonical names for the repository's private functions.

The rules talk about parameters of private workers by name (`show_progress`, `ltable`, `l_key_attr_index` ...).
Private names are free to change in a refactoring, so before the rules run every private function
(leading underscore, plus the internal worker `set_sim_join`) is put back under the signature recorded in
`canon_sigs.json` (taken from the tree the rules were confirmed on): parameters are alpha-renamed BY POSITION
throughout the function body and at keyword call sites, and a module-level worker that disappeared under its
catalogued name is recognised by its role - the one private function of that module that is dispatched through
joblib's `delayed(...)` and has the same arity - and
given its catalogued name back. Only names change; positions, structure and line numbers stay. A renaming that
would capture an existing local is skipped (the rules then see the names as written).

Public names (functions, methods and parameters without leading underscore, except the listed workers) are
API and are never touched."""
import ast
import json
import os

_SIGS = None


def sigs():
    global _SIGS
    if _SIGS is None:
        with open(os.path.join(os.path.dirname(os.path.abspath(__file__)), 'canon_sigs.json')) as fh:
            _SIGS = json.load(fh)
    return _SIGS


def collect(repo_sources):
    """(development aid) signatures of the private functions of a source map -> {relpath: {qual: [params]}}"""
    out = {}
    for rel, src in sorted(repo_sources.items()):
        tree = ast.parse(src)
        ent = {}
        for n in tree.body:
            if isinstance(n, ast.FunctionDef) and (n.name.startswith('_') or n.name == 'set_sim_join'):
                ent[n.name] = [a.arg for a in n.args.args]
            if isinstance(n, ast.ClassDef):
                for b in n.body:
                    if isinstance(b, ast.FunctionDef) and b.name.startswith('_') and not b.name.startswith('__'):
                        ent['%s.%s' % (n.name, b.name)] = [a.arg for a in b.args.args]
        if ent:
            out[rel] = ent
    return out


def _delayed_targets(tree):
    out = set()
    for n in ast.walk(tree):
        if isinstance(n, ast.Call) and isinstance(n.func, ast.Name) and n.func.id == 'delayed' and n.args and isinstance(n.args[0], ast.Name):
            out.add(n.args[0].id)
    return out


class _Ren(ast.NodeTransformer):
    def __init__(self, m):
        self.m = m

    def visit_Name(self, n):
        if n.id in self.m:
            n.id = self.m[n.id]
        return n

    def visit_arg(self, n):
        if n.arg in self.m:
            n.arg = self.m[n.arg]
        return n


def _rename_params(fn, want):
    """alpha-rename the positional parameters of fn to `want`; -> {old: new} (empty when nothing to do or unsafe)"""
    have = [a.arg for a in fn.args.args]
    if len(have) != len(want) or have == want:
        return {}
    m = {h: w for h, w in zip(have, want) if h != w}
    used = {n.id for n in ast.walk(fn) if isinstance(n, ast.Name)} | {a.arg for a in ast.walk(fn) if isinstance(a, ast.arg)}
    # capture: a new name already in use inside the function for something else
    for old, new in m.items():
        if new in used and new not in m:
            return {}
    # simultaneous renaming (a swap of two parameter names is possible)
    tmp = {old: '__canon_%d__' % i for i, old in enumerate(m)}
    _Ren(tmp).visit(fn)
    _Ren({tmp[old]: new for old, new in m.items()}).visit(fn)
    return m


def canonicalise(trees):
    """trees: {relpath: ast.Module}; renames in place. -> list of human-readable notes"""
    notes = []
    fn_renames = {}       # old function name -> canonical name (module-level workers), across modules
    kw_renames = {}       # canonical function name -> {old kw: new kw}
    S = sigs()
    for rel, ent in S.items():
        tree = trees.get(rel)
        if tree is None:
            continue
        mod_funcs = {n.name: n for n in tree.body if isinstance(n, ast.FunctionDef)}
        classes = {n.name: n for n in tree.body if isinstance(n, ast.ClassDef)}
        catalogued = {q for q in ent if '.' not in q}
        for qual, want in ent.items():
            fn = None
            if '.' in qual:
                cn, mn = qual.split('.', 1)
                c = classes.get(cn)
                if c is not None:
                    for b in c.body:
                        if isinstance(b, ast.FunctionDef) and b.name == mn:
                            fn = b
            else:
                fn = mod_funcs.get(qual)
                if fn is None:
                    # renamed worker: by role
                    free = [f for nm, f in mod_funcs.items() if nm not in catalogued and nm.startswith('_')
                            and len(f.args.args) == len(want)]
                    dl = _delayed_targets(tree)
                    cand = [f for f in free if f.name in dl]
                    if len(cand) == 1:
                        fn = cand[0]
                        old = fn.name
                        fn_renames[old] = qual
                        notes.append('%s: private worker `%s` is treated as `%s`' % (rel, old, qual))
            if fn is None:
                continue
            m = _rename_params(fn, want)
            if m:
                kw_renames.setdefault(qual.split('.')[-1], {}).update(m)
                notes.append('%s:%s parameters %s read as %s' % (rel, qual, sorted(m), [m[k] for k in sorted(m)]))
    if fn_renames or kw_renames:
        for rel, tree in trees.items():
            for n in ast.walk(tree):
                if isinstance(n, ast.FunctionDef) and n.name in fn_renames and n in tree.body:
                    n.name = fn_renames[n.name]
                elif isinstance(n, ast.Name) and n.id in fn_renames:
                    n.id = fn_renames[n.id]
                elif isinstance(n, ast.alias) and n.name in fn_renames:
                    n.name = fn_renames[n.name]
            for n in ast.walk(tree):
                if isinstance(n, ast.Call):
                    f = n.func
                    if isinstance(f, ast.Call) and isinstance(f.func, ast.Name) and f.func.id == 'delayed' and f.args:
                        f = f.args[0]
                    nm = f.id if isinstance(f, ast.Name) else f.attr if isinstance(f, ast.Attribute) else None
                    if nm in kw_renames:
                        for k in n.keywords:
                            if k.arg in kw_renames[nm]:
                                k.arg = kw_renames[nm][k.arg]
    return notes
