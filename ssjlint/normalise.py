"""Source-to-source normalisation used when a rule's structural anchor (a loop that appends one row per
element) is written in an equivalent other shape:

  A  `lst = [ELT for x in IT if C]`            ->  `lst = []` + `for x in IT: [if C:] lst.append(ELT)`
  B  a statement that calls a same-module helper whose returns are all in tail position
                                                ->  the helper's body, parameters bound to the arguments,
                                                    `return v` replaced by `__ret_<helper> = v`, followed by
                                                    the statement with the call replaced by `__ret_<helper>`

Both are meaning-preserving for the code the rules look at (the helper's locals are renamed when they collide
with the caller's names). The rules then run on a Repo rebuilt with the rewritten module; reported positions
refer to the rewritten function, whose text is included in the finding."""
import ast
import copy


def _tail_returns_only(body):
    """every Return in body is in tail position and every path through body ends in a Return"""
    if not body:
        return False
    for st in body[:-1]:
        for n in ast.walk(st):
            if isinstance(n, (ast.Return, ast.Yield, ast.YieldFrom)):
                return False
            if isinstance(n, (ast.FunctionDef, ast.Lambda)) and n is not st:
                pass
    last = body[-1]
    if isinstance(last, ast.Return):
        return last.value is not None
    if isinstance(last, ast.If):
        return bool(last.orelse) and _tail_returns_only(last.body) and _tail_returns_only(last.orelse)
    return False


def _to_tail_form(body):
    """`if c: A; return a` followed by R  ==  `if c: A; return a  else: R` (guard clauses back to if/else)"""
    out = []
    for i, st in enumerate(body):
        if isinstance(st, ast.If) and not st.orelse and st.body and isinstance(st.body[-1], ast.Return) and i + 1 < len(body):
            new = copy.copy(st)
            new.body = _to_tail_form(st.body)
            new.orelse = _to_tail_form(body[i + 1:])
            out.append(new)
            return out
        if isinstance(st, ast.If):
            new = copy.copy(st)
            new.body = _to_tail_form(st.body)
            new.orelse = _to_tail_form(st.orelse) if st.orelse else []
            out.append(new)
        else:
            out.append(st)
    return out


def _bare_tail(body):
    """every bare `return` is the last statement of a block in tail position"""
    for st in body[:-1]:
        if any(isinstance(n, ast.Return) for n in ast.walk(st)):
            return False
    if not body:
        return True
    last = body[-1]
    if isinstance(last, ast.Return):
        return last.value is None
    if isinstance(last, ast.If):
        return _bare_tail(last.body) and _bare_tail(last.orelse)
    return not any(isinstance(n, ast.Return) for n in ast.walk(last))


def _drop_bare_returns(body):
    out = []
    for st in body:
        if isinstance(st, ast.Return) and st.value is None:
            out.append(ast.copy_location(ast.Pass(), st))
        elif isinstance(st, ast.If):
            st.body = _drop_bare_returns(st.body) or [ast.Pass()]
            st.orelse = _drop_bare_returns(st.orelse)
            out.append(st)
        else:
            out.append(st)
    return out


def _replace_returns(body, name):
    out = []
    for st in body:
        if isinstance(st, ast.Return):
            out.append(ast.Assign(targets=[ast.Name(id=name, ctx=ast.Store())], value=st.value, lineno=getattr(st, "lineno", 0)))
        elif isinstance(st, ast.If):
            st = copy.copy(st)
            st.body = _replace_returns(st.body, name)
            st.orelse = _replace_returns(st.orelse, name)
            out.append(st)
        else:
            out.append(st)
    return out


class _Rename(ast.NodeTransformer):
    def __init__(self, m):
        self.m = m

    def visit_Name(self, n):
        if n.id in self.m:
            return ast.copy_location(ast.Name(id=self.m[n.id], ctx=n.ctx), n)
        return n


def _names_stored(node):
    return {n.id for n in ast.walk(node) if isinstance(n, ast.Name) and isinstance(n.ctx, (ast.Store, ast.Del))}


def _inline_call(stmt, call, helper, caller_names, counter):
    """-> list of statements replacing stmt, or None"""
    a = helper.args
    if a.vararg or a.kwarg or a.kwonlyargs or a.posonlyargs:
        return None
    params = [x.arg for x in a.args]
    if isinstance(call.func, ast.Attribute) and params and params[0] == 'self':
        params = params[1:]                       # a method of the same object: `self` stays `self`
    if len(call.args) > len(params) or any(isinstance(x, ast.Starred) for x in call.args):
        return None
    bound = dict(zip(params, call.args))
    for k in call.keywords:
        if k.arg is None or k.arg not in params or k.arg in bound:
            return None
        bound[k.arg] = k.value
    defaults = dict(zip(params[len(params) - len(a.defaults):], a.defaults))
    for p in params:
        if p not in bound:
            if p not in defaults:
                return None
            bound[p] = defaults[p]
    body = [st for st in helper.body if not (isinstance(st, ast.Expr) and isinstance(st.value, ast.Constant))]
    body = _to_tail_form(body)
    rets_ = [n for st in body for n in ast.walk(st) if isinstance(n, ast.Return)]
    if rets_ and all(r.value is None for r in rets_) and _bare_tail(body):
        body = _drop_bare_returns(copy.deepcopy(body))      # `if c: return` guard clauses of a procedure
    procedure = not any(isinstance(n, (ast.Return, ast.Yield, ast.YieldFrom)) for st in body for n in ast.walk(st))
    if procedure:
        if not (isinstance(stmt, ast.Expr) and stmt.value is call):
            return None
    elif not _tail_returns_only(body):
        return None
    body = copy.deepcopy(body)
    ret = '__ret_%s_%d' % (helper.name.strip('_'), counter)
    locals_ = set()
    for st in body:
        locals_ |= _names_stored(st)
    ren = {}
    pre = []
    for p in params:
        arg = bound[p]
        if isinstance(arg, ast.Name) and arg.id == p and p not in locals_:
            continue                      # same name, not reassigned in the helper
        new = p if p not in caller_names else '%s__%d' % (p, counter)
        ren[p] = new
        pre.append(ast.Assign(targets=[ast.Name(id=new, ctx=ast.Store())], value=copy.deepcopy(arg), lineno=getattr(stmt, "lineno", 0)))
    for v in sorted(locals_ - set(params)):
        if v in caller_names:
            ren[v] = '%s__%d' % (v, counter)
    body = _replace_returns(body, ret)
    if ren:
        body = [_Rename(ren).visit(st) for st in body]

    class _Sub(ast.NodeTransformer):
        def visit_Call(s, n):
            if n is call:
                return ast.Name(id=ret, ctx=ast.Load())
            return s.generic_visit(n)
    if procedure:
        return pre + body
    new_stmt = _Sub().visit(stmt)
    return pre + body + [new_stmt]


def _chain_set(st):
    """`x = set(chain.from_iterable(GEN))` / `return set(chain.from_iterable(GEN))` / set().union(*GEN) -> (name, GEN, is_return)"""
    v = None
    name = None
    is_ret = False
    if isinstance(st, ast.Return) and st.value is not None:
        v, name, is_ret = st.value, '__acc', True
    elif isinstance(st, ast.Assign) and len(st.targets) == 1 and isinstance(st.targets[0], ast.Name):
        v, name = st.value, st.targets[0].id
    if not (isinstance(v, ast.Call) and isinstance(v.func, ast.Name) and v.func.id in ('set', 'frozenset') and len(v.args) == 1):
        return None
    inner = v.args[0]
    if isinstance(inner, ast.Call) and ast.unparse(inner.func) in ('chain.from_iterable', 'itertools.chain.from_iterable') \
            and len(inner.args) == 1 and isinstance(inner.args[0], (ast.GeneratorExp, ast.ListComp)) \
            and len(inner.args[0].generators) == 1:
        return name, inner.args[0], is_ret
    return None


def _loopify(body):
    """transformation A on a statement list (recursively)"""
    out = []
    changed = False
    for st in body:
        if isinstance(st, ast.Assign) and len(st.targets) == 1 and isinstance(st.targets[0], ast.Name) \
                and isinstance(st.value, ast.ListComp) and len(st.value.generators) == 1 and not st.value.generators[0].is_async:
            g = st.value.generators[0]
            lst = st.targets[0].id
            app = ast.Expr(value=ast.Call(func=ast.Attribute(value=ast.Name(id=lst, ctx=ast.Load()), attr='append', ctx=ast.Load()),
                                          args=[st.value.elt], keywords=[]))
            inner = [app]
            for c in reversed(g.ifs):
                inner = [ast.If(test=c, body=inner, orelse=[])]
            out.append(ast.Assign(targets=[ast.Name(id=lst, ctx=ast.Store())], value=ast.List(elts=[], ctx=ast.Load()), lineno=getattr(st, "lineno", 0)))
            out.append(ast.For(target=g.target, iter=g.iter, body=inner, orelse=[], lineno=getattr(st, "lineno", 0)))
            changed = True
            continue
        ch_ = _chain_set(st)
        if ch_ is not None:
            # [x =|return] set(chain.from_iterable(ELT for v in IT if C))  ->  acc = set(); for v in IT: if C: acc.update(ELT)
            name, comp, is_ret = ch_
            g = comp.generators[0]
            inner = [ast.Expr(value=ast.Call(func=ast.Attribute(value=ast.Name(id=name, ctx=ast.Load()), attr='update', ctx=ast.Load()),
                                             args=[comp.elt], keywords=[]))]
            for c in reversed(g.ifs):
                inner = [ast.If(test=c, body=inner, orelse=[])]
            ln = getattr(st, "lineno", 0)
            out.append(ast.Assign(targets=[ast.Name(id=name, ctx=ast.Store())],
                                  value=ast.Call(func=ast.Name(id='set', ctx=ast.Load()), args=[], keywords=[]), lineno=ln))
            out.append(ast.For(target=g.target, iter=g.iter, body=inner, orelse=[], lineno=ln))
            if is_ret:
                out.append(ast.Return(value=ast.Name(id=name, ctx=ast.Load()), lineno=ln))
            changed = True
            continue
        if isinstance(st, ast.Assign) and len(st.targets) == 1 and isinstance(st.targets[0], ast.Name) \
                and isinstance(st.value, ast.DictComp) and len(st.value.generators) == 1 and not st.value.generators[0].is_async:
            # d = {K: V for x in IT if C}  ->  d = {}; for x in IT: if C: d[K] = V
            g = st.value.generators[0]
            dn = st.targets[0].id
            inner = [ast.Assign(targets=[ast.Subscript(value=ast.Name(id=dn, ctx=ast.Load()), slice=st.value.key, ctx=ast.Store())],
                                value=st.value.value, lineno=getattr(st, "lineno", 0))]
            for c in reversed(g.ifs):
                inner = [ast.If(test=c, body=inner, orelse=[])]
            out.append(ast.Assign(targets=[ast.Name(id=dn, ctx=ast.Store())], value=ast.Dict(keys=[], values=[]), lineno=getattr(st, "lineno", 0)))
            out.append(ast.For(target=g.target, iter=g.iter, body=inner, orelse=[], lineno=getattr(st, "lineno", 0)))
            changed = True
            continue
        if isinstance(st, ast.Expr) and isinstance(st.value, ast.Call) and isinstance(st.value.func, ast.Attribute) \
                and st.value.func.attr == 'extend' and isinstance(st.value.func.value, ast.Name) and len(st.value.args) == 1 \
                and isinstance(st.value.args[0], (ast.ListComp, ast.GeneratorExp)) and len(st.value.args[0].generators) == 1:
            # lst.extend(ELT for x in IT if C)  ->  for x in IT: if C: lst.append(ELT)
            comp = st.value.args[0]
            g = comp.generators[0]
            lst = st.value.func.value.id
            inner = [ast.Expr(value=ast.Call(func=ast.Attribute(value=ast.Name(id=lst, ctx=ast.Load()), attr='append', ctx=ast.Load()),
                                             args=[comp.elt], keywords=[]))]
            for c in reversed(g.ifs):
                inner = [ast.If(test=c, body=inner, orelse=[])]
            out.append(ast.For(target=g.target, iter=g.iter, body=inner, orelse=[], lineno=getattr(st, "lineno", 0)))
            changed = True
            continue
        for fld in ('body', 'orelse', 'finalbody'):
            sub = getattr(st, fld, None)
            if isinstance(sub, list) and sub and isinstance(sub[0], ast.stmt):
                new, ch = _loopify(sub)
                if ch:
                    st = copy.copy(st)
                    setattr(st, fld, new)
                    changed = True
        out.append(st)
    return out, changed


def _inline_in(body, helpers, caller_names, state):
    out = []
    changed = False
    for st in body:
        for fld in ('body', 'orelse', 'finalbody'):
            sub = getattr(st, fld, None)
            if isinstance(sub, list) and sub and isinstance(sub[0], ast.stmt):
                new, ch = _inline_in(sub, helpers, caller_names, state)
                if ch:
                    st = copy.copy(st)
                    setattr(st, fld, new)
                    changed = True
        done = False
        if isinstance(st, (ast.Expr, ast.Assign, ast.Return, ast.AugAssign)):
            def hkey(n):
                if isinstance(n.func, ast.Name):
                    return n.func.id
                if isinstance(n.func, ast.Attribute) and isinstance(n.func.value, ast.Name) and n.func.value.id == 'self':
                    return 'self.' + n.func.attr
                return None
            calls = [n for n in ast.walk(st) if isinstance(n, ast.Call) and hkey(n) in helpers and state['only'](hkey(n))]
            # a call inside a lambda / comprehension of the statement cannot be hoisted
            inner = set()
            for n in ast.walk(st):
                if isinstance(n, (ast.Lambda, ast.ListComp, ast.SetComp, ast.DictComp, ast.GeneratorExp, ast.IfExp, ast.BoolOp)):
                    for x in ast.walk(n):
                        if x is not n:
                            inner.add(id(x))
            calls = [c for c in calls if id(c) not in inner]
            if len(calls) == 1:
                state['n'] += 1
                idx = [i for i, n in enumerate(ast.walk(st)) if n is calls[0]][0]
                st2 = copy.deepcopy(st)
                call2 = list(ast.walk(st2))[idx]
                rep = _inline_call(st2, call2, helpers[hkey(calls[0])], caller_names, state['n'])
                if rep is not None:
                    out.extend(rep)
                    changed = True
                    done = True
        if not done:
            out.append(st)
    return out, changed


def normalise_function(module_tree, func_name, only=None):
    """-> (new module source, what was done) or (None, []) when nothing applies. `only(helper_name)` selects the
    helpers that may be inlined (default: every module-level function whose returns are in tail position)."""
    helpers = {n.name: n for n in module_tree.body if isinstance(n, ast.FunctionDef) and n.name != func_name}
    target = [n for n in module_tree.body if isinstance(n, ast.FunctionDef) and n.name == func_name]
    if not target:
        return None, []
    fn = target[0]
    done = []
    body, ch = _loopify(fn.body)
    if ch:
        done.append('list comprehension -> append loop')
    names = {n.id for n in ast.walk(fn) if isinstance(n, ast.Name)} | {a.arg for a in fn.args.args}
    state = {'n': 0, 'only': only or (lambda nm: True)}
    body2, ch2 = _inline_in(body, helpers, names, state)
    if ch2:
        done.append('helper body inlined')
        body = body2
    if not done:
        return None, []
    new_fn = copy.copy(fn)
    new_fn.body = body
    new_tree = copy.copy(module_tree)
    new_tree.body = [new_fn if n is fn else n for n in module_tree.body]
    ast.fix_missing_locations(new_tree)
    return ast.unparse(new_tree), done


def normalised_repo(repo, relpath, func_name, only=None):
    """a Repo in which `func_name` of module `relpath` is replaced by its normal form; None when nothing applies"""
    from .model import Repo
    m = repo.by_path[relpath]
    src, done = normalise_function(m.tree, func_name, only=only or (lambda nm: False))
    if src is None:
        return None
    srcs = dict(repo.sources)
    srcs[relpath] = src
    try:
        return Repo(srcs)
    except Exception:
        return None


def inline_private_methods(repo, relpath, qual):
    """a Repo in which the private helper methods (`self._x(...)`, own class or a base class, procedures or tail
    returns) called at statement level from method `qual` are inlined into it; None when nothing applies"""
    from .model import Repo
    f = repo.fn(relpath, qual, raw=True)
    if f.cls is None:
        return None
    helpers = {}
    for c in repo.calls_in(f):
        if isinstance(c.func, ast.Attribute) and isinstance(c.func.value, ast.Name) and c.func.value.id == 'self' \
                and c.func.attr.startswith('_') and not c.func.attr.startswith('__'):
            m = repo.find_method(f.cls, c.func.attr)
            if m is not None and m is not f:
                helpers['self.' + c.func.attr] = m.node
    if not helpers:
        return None
    tree = copy.deepcopy(f.module.tree)
    target = None
    for n in tree.body:
        if isinstance(n, ast.ClassDef) and n.name == f.cls.name:
            for b in n.body:
                if isinstance(b, ast.FunctionDef) and b.name == f.name:
                    target = b
    if target is None:
        return None
    names = {n.id for n in ast.walk(target) if isinstance(n, ast.Name)} | {a.arg for a in target.args.args}
    state = {'n': 0, 'only': lambda nm: True}
    body, ch = _inline_in(target.body, helpers, names, state)
    if not ch:
        return None
    target.body = body
    ast.fix_missing_locations(tree)
    srcs = dict(repo.sources)
    srcs[relpath] = ast.unparse(tree)
    try:
        return Repo(srcs)
    except Exception:
        return None


def loopified(repo, relpath, qual, raw=False):
    """FuncInfo of `qual` with its list/dict comprehension builders written as loops (in a rebuilt Repo); None when
    there is nothing to rewrite"""
    from .model import Repo
    f = repo.fn(relpath, qual, raw=True) if raw else repo.fn(relpath, qual)
    tree = copy.deepcopy(f.module.tree)
    target = None
    for n in tree.body:
        if isinstance(n, ast.FunctionDef) and f.cls is None and n.name == f.name:
            target = n
        if isinstance(n, ast.ClassDef) and f.cls is not None and n.name == f.cls.name:
            for b in n.body:
                if isinstance(b, ast.FunctionDef) and b.name == f.name:
                    target = b
    if target is None:
        return None
    body, ch = _loopify(target.body)
    if not ch:
        return None
    target.body = body
    ast.fix_missing_locations(tree)
    srcs = dict(repo.sources)
    srcs[relpath] = ast.unparse(tree)
    try:
        return Repo(srcs).fn(relpath, qual, raw=True)
    except Exception:
        return None


def _literal_rows(e, fn, depth=0):
    """e denotes a fixed sequence of tuples known at analysis time -> list of lists of exprs, else None"""
    if depth > 3:
        return None
    if isinstance(e, (ast.Tuple, ast.List)) and e.elts and all(isinstance(x, (ast.Tuple, ast.List)) for x in e.elts):
        return [list(x.elts) for x in e.elts]
    if isinstance(e, ast.Name):
        defs = [st for st in ast.walk(fn) if isinstance(st, ast.Assign) and len(st.targets) == 1
                and isinstance(st.targets[0], ast.Name) and st.targets[0].id == e.id]
        stores = [n for n in ast.walk(fn) if isinstance(n, ast.Name) and n.id == e.id and isinstance(n.ctx, ast.Store)]
        if len(defs) == 1 and len(stores) == 1:
            return _literal_rows(defs[0].value, fn, depth + 1)
        return None
    if isinstance(e, (ast.ListComp, ast.GeneratorExp)) and len(e.generators) == 1 and not e.generators[0].ifs \
            and isinstance(e.elt, (ast.Tuple, ast.List)):
        g = e.generators[0]
        src = _literal_rows(g.iter, fn, depth + 1)
        if src is None:
            return None
        out = []
        for row in src:
            m = _bind_target(g.target, row)
            if m is None:
                return None
            out.append([_fold_str(_Subst(m).visit(copy.deepcopy(x))) for x in e.elt.elts])
        return out
    return None


def _bind_target(t, row):
    if isinstance(t, ast.Name):
        return None
    if isinstance(t, (ast.Tuple, ast.List)) and len(t.elts) == len(row) and all(isinstance(x, ast.Name) for x in t.elts):
        return {x.id: v for x, v in zip(t.elts, row) if x.id != '_'}
    return None


class _Subst(ast.NodeTransformer):
    def __init__(self, m):
        self.m = m

    def visit_Name(self, n):
        if isinstance(n.ctx, ast.Load) and n.id in self.m:
            return copy.deepcopy(self.m[n.id])
        return n


def _fold_str(e):
    """'%s table' % 'left' -> 'left table' (constants only)"""
    class T(ast.NodeTransformer):
        def visit_BinOp(s_, n):
            n = s_.generic_visit(n)
            if isinstance(n.op, ast.Mod) and isinstance(n.left, ast.Constant) and isinstance(n.left.value, str):
                args = n.right.elts if isinstance(n.right, ast.Tuple) else [n.right]
                if all(isinstance(a, ast.Constant) for a in args):
                    try:
                        return ast.copy_location(ast.Constant(n.left.value % tuple(a.value for a in args)), n)
                    except Exception:
                        return n
            if isinstance(n.op, ast.Add) and isinstance(n.left, ast.Constant) and isinstance(n.right, ast.Constant) \
                    and isinstance(n.left.value, str) and isinstance(n.right.value, str):
                return ast.copy_location(ast.Constant(n.left.value + n.right.value), n)
            return n

        def visit_Call(s_, n):
            n = s_.generic_visit(n)
            if isinstance(n.func, ast.Attribute) and n.func.attr == 'format' and isinstance(n.func.value, ast.Constant) \
                    and isinstance(n.func.value.value, str) and not n.keywords and all(isinstance(a, ast.Constant) for a in n.args):
                try:
                    return ast.copy_location(ast.Constant(n.func.value.value.format(*[a.value for a in n.args])), n)
                except Exception:
                    return n
            return n
    return T().visit(e)


def _unroll(body, fn):
    out = []
    changed = False
    for st in body:
        if isinstance(st, ast.For) and not st.orelse and not any(isinstance(x, (ast.Break, ast.Continue)) for x in ast.walk(st)):
            rows = _literal_rows(st.iter, fn)
            if rows is not None and len(rows) <= 6:
                ok = True
                chunks = []
                for row in rows:
                    m = _bind_target(st.target, row)
                    if m is None:
                        ok = False
                        break
                    chunks.append([_fold_str(_Subst(m).visit(copy.deepcopy(b))) for b in st.body])
                if ok:
                    for ch in chunks:
                        out.extend(ch)
                    changed = True
                    continue
        out.append(st)
    return out, changed


def unrolled(repo, f):
    """f with its loops over literal sequences of tuples (`for (label, table) in (('left table', ltable), ..)`, also
    through a local bound once to such a sequence or to a comprehension over one) written out, in a rebuilt Repo; f
    itself when there is nothing to unroll"""
    from .model import Repo
    if f.cls is not None or f.outer is not None:
        return f
    if not any(isinstance(n, ast.For) and isinstance(n.target, (ast.Tuple, ast.List)) for n in f.node.body):
        return f
    cache = repo.__dict__.setdefault('_unrolled', {})
    k = (f.module.relpath, f.qual)
    if k in cache:
        return cache[k] or f
    cache[k] = None
    tree = copy.deepcopy(f.module.tree)
    target = [n for n in tree.body if isinstance(n, ast.FunctionDef) and n.name == f.name]
    if not target:
        return f
    body, ch = _unroll(target[0].body, target[0])
    if not ch:
        return f
    # the helper sequences are no longer needed when nothing else reads them (harmless if they stay)
    target[0].body = body
    ast.fix_missing_locations(tree)
    srcs = dict(repo.sources)
    srcs[f.module.relpath] = ast.unparse(tree)
    try:
        cache[k] = Repo(srcs).fn(f.module.relpath, f.qual)
    except Exception:
        cache[k] = None
    return cache[k] or f
