"""Finite abstract domain of column dtype kinds and truth tables of the dtype predicates the
repository may use. Values: True / False / RAISES (the predicate itself raises for that kind).
Checked against pandas 3.0.6 / numpy 1.26.4; an unmodelled predicate is an AnalysisError."""
import ast

from . import AnalysisError
from .model import U

KINDS = ['object', 'str', 'int', 'int32', 'float', 'float32', 'bool', 'other']     # int = int64, int32 = another integer width; float = float64, float32 = another float width
RAISES = 'RAISES'
UNKNOWN = None

# np.issubdtype(<kind>, <abstract class>)
_SUB = {
    'integer': {'object': False, 'str': RAISES, 'int': True, 'int32': True, 'float32': False, 'float': False, 'bool': False, 'other': False},
    # the builtin `int` / np.int64 name ONE width: np.issubdtype(np.int32, int) is False
    'int64': {'object': False, 'str': RAISES, 'int': True, 'int32': False, 'float32': False, 'float': False, 'bool': False, 'other': False},
    'float64': {'object': False, 'str': RAISES, 'int': False, 'int32': False, 'float32': False, 'float': True, 'bool': False, 'other': False},
    'floating': {'object': False, 'str': RAISES, 'int': False, 'int32': False, 'float32': True, 'float': True, 'bool': False, 'other': False},
    'number': {'object': False, 'str': RAISES, 'int': True, 'int32': True, 'float32': True, 'float': True, 'bool': False, 'other': False},
    'object_': {'object': True, 'str': RAISES, 'int': False, 'int32': False, 'float32': False, 'float': False, 'bool': False, 'other': False},
}
_SUB_NAMES = {'np.integer': 'integer', 'numpy.integer': 'integer', 'int': 'int64', 'np.int64': 'int64', 'np.int_': 'int64',
              'np.floating': 'floating', 'numpy.floating': 'floating', 'float': 'float64', 'np.float64': 'float64', 'np.float_': 'float64', 'np.number': 'number',
              'np.object_': 'object_', 'object': 'object_'}
_IS = {
    'is_string_dtype': {'object': True, 'str': True, 'int': False, 'int32': False, 'float32': False, 'float': False, 'bool': False, 'other': False},
    'is_object_dtype': {'object': True, 'str': False, 'int': False, 'int32': False, 'float32': False, 'float': False, 'bool': False, 'other': False},
    'is_integer_dtype': {'object': False, 'str': False, 'int': True, 'int32': True, 'float32': False, 'float': False, 'bool': False, 'other': False},
    'is_float_dtype': {'object': False, 'str': False, 'int': False, 'int32': False, 'float32': True, 'float': True, 'bool': False, 'other': False},
    'is_numeric_dtype': {'object': False, 'str': False, 'int': True, 'int32': True, 'float32': True, 'float': True, 'bool': True, 'other': False},
    'is_bool_dtype': {'object': False, 'str': False, 'int': False, 'int32': False, 'float32': False, 'float': False, 'bool': True, 'other': False},
}


def is_dtype_expr(e, dtype_names):
    if isinstance(e, ast.Name) and e.id in dtype_names:
        return True
    if isinstance(e, ast.Attribute) and e.attr == 'dtype':
        return True
    return False


def eval_pred(e, kind, dtype_names):
    """-> True/False/RAISES for a recognised dtype predicate, UNKNOWN for a test that does not involve the
    dtype; AnalysisError for an unmodelled test that does."""
    if isinstance(e, ast.Compare) and len(e.ops) == 1:
        l, r = e.left, e.comparators[0]
        for a, b in ((l, r), (r, l)):
            if is_dtype_expr(a, dtype_names):
                if isinstance(b, ast.Name) and b.id == 'object' and isinstance(e.ops[0], (ast.Eq, ast.NotEq)):
                    eq = (kind == 'object')
                    return eq if isinstance(e.ops[0], ast.Eq) else not eq
                if isinstance(b, ast.Name) and b.id in ('str', 'int', 'float', 'bool') and isinstance(e.ops[0], (ast.Eq, ast.NotEq)):
                    eq = (kind == b.id)
                    return eq if isinstance(e.ops[0], ast.Eq) else not eq
                if isinstance(b, ast.Constant) and isinstance(b.value, str) and isinstance(e.ops[0], (ast.Eq, ast.NotEq)):
                    m = {'object': 'object', 'O': 'object', 'str': 'str', 'string': 'str', 'int64': 'int', 'float64': 'float'}
                    if b.value in m:
                        eq = (kind == m[b.value])
                        return eq if isinstance(e.ops[0], ast.Eq) else not eq
                raise AnalysisError('unmodelled dtype comparison `%s`' % U(e))
        return UNKNOWN
    if isinstance(e, ast.Call):
        fn = U(e.func)
        short = fn.split('.')[-1]
        if short == 'issubdtype' and len(e.args) == 2 and is_dtype_expr(e.args[0], dtype_names):
            cls = _SUB_NAMES.get(U(e.args[1]))
            if cls is None:
                raise AnalysisError('unmodelled np.issubdtype class `%s`' % U(e.args[1]))
            return _SUB[cls][kind]
        if short in _IS and len(e.args) == 1 and is_dtype_expr(e.args[0], dtype_names):
            return _IS[short][kind]
        if short == 'isinstance' and len(e.args) == 2 and is_dtype_expr(e.args[0], dtype_names):
            t = U(e.args[1])
            if t.endswith('StringDtype'):
                return kind == 'str'
            raise AnalysisError('unmodelled isinstance on a dtype: `%s`' % U(e))
        if any(is_dtype_expr(a, dtype_names) for a in e.args):
            raise AnalysisError('unmodelled dtype predicate `%s`' % U(e))
        return UNKNOWN
    if any(is_dtype_expr(x, dtype_names) for x in ast.walk(e)) and not isinstance(e, (ast.BoolOp, ast.UnaryOp)):
        raise AnalysisError('unmodelled dtype test `%s`' % U(e))
    return UNKNOWN


def eval3(e, kind, dtype_names):
    """Three-valued evaluation with short-circuit: True / False / UNKNOWN / RAISES(may raise)."""
    if isinstance(e, ast.UnaryOp) and isinstance(e.op, ast.Not):
        v = eval3(e.operand, kind, dtype_names)
        if v is RAISES or v is UNKNOWN:
            return v
        return not v
    if isinstance(e, ast.BoolOp):
        is_and = isinstance(e.op, ast.And)
        unknown = False
        for x in e.values:
            v = eval3(x, kind, dtype_names)
            if v is RAISES:
                return RAISES
            if v is UNKNOWN:
                unknown = True
                continue
            if is_and and v is False:
                return False
            if not is_and and v is True:
                return True
        if unknown:
            return UNKNOWN
        return is_and
    return eval_pred(e, kind, dtype_names)


def outcomes(fnode, kind, dtype_names):
    """Terminal events reachable for a column of `kind`: list of ('return', expr text, stmt) /
    ('raise', exception name, stmt) / ('pred-raises', predicate text, stmt)."""
    out = []

    def block(stmts, live):
        for st in stmts:
            if not live:
                return False
            if isinstance(st, ast.If):
                v = eval3(st.test, kind, dtype_names)
                if v is RAISES:
                    out.append(('pred-raises', U(st.test), st))
                    return False
                a = block(st.body, True) if v is not False else False
                b = block(st.orelse, True) if v is not True else False
                if v is True:
                    live = a
                elif v is False:
                    live = b
                else:
                    live = a or b
            elif isinstance(st, ast.Return):
                out.append(('return', U(st.value) if st.value is not None else 'None', st))
                return False
            elif isinstance(st, ast.Raise):
                exc = st.exc
                out.append(('raise', U(exc.func) if isinstance(exc, ast.Call) else U(exc) if exc is not None else '?', st))
                return False
            elif isinstance(st, (ast.For, ast.While)):
                block(st.body, True)
            elif isinstance(st, (ast.With,)):
                live = block(st.body, True)
            elif isinstance(st, ast.Try):
                live = block(st.body, True)
                if st.finalbody:
                    block(st.finalbody, True)
        return live
    block(fnode.body, True)
    return out
