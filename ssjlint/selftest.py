"""Self-validation of the checker (thorough tier): kill matrix and silence battery.

Variants are single edits of the *current* sources held in memory (never written to disk); each
must still compile. A kill variant is labelled with the properties it breaks: the check of each
such property must report a finding. A silence variant preserves behaviour: every check must
stay silent and must not give up (no ANALYSIS-ERROR). A failure of either battery means the
checker is wrong -> AnalysisError (exit 2), never a VIOLATION.

An edit whose anchor text is no longer present in the tree (because /repo changed) is reported
as 'stale' and skipped - the batteries describe today's code."""
import ast
import os
import sys
import time

from . import AnalysisError
from .model import Repo
from .flow import clear_cache
from .variants import KILL, SILENT

P = 'py_stringsimjoin/'


def apply_edit(sources, edits):
    """edits: list of (relpath, old, new[, count]) -> new sources dict or None when stale"""
    out = dict(sources)
    for ed in edits:
        rel, old, new = ed[0], ed[1], ed[2]
        want = ed[3] if len(ed) > 3 else 1
        src = out.get(P + rel if not rel.startswith(P) else rel)
        key = P + rel if not rel.startswith(P) else rel
        if src is None or src.count(old) != want:
            return None
        out[key] = src.replace(old, new)
    for key in out:
        if out[key] is not sources.get(key):
            try:
                compile(out[key], key, 'exec', dont_inherit=True)
            except SyntaxError as e:
                raise AnalysisError('self-test variant does not compile: %s: %s' % (key, e))
    return out


def run_variant(prop, sources):
    from .__main__ import run_property
    clear_cache()
    repo = Repo(sources)
    ctx, err = run_property(prop, 'quick', repo=repo)
    return ctx, err


def run_for_property(prop, ctx0, verbose=False, jobs=None):
    """Kill variants labelled with `prop` must be reported by prop's check; silence variants must
    leave prop's check silent. Returns coverage extras for the evidence."""
    base = ctx0.repo.sources
    base_ids = set(f.ident for f in ctx0.findings)      # findings of the tree itself (e.g. known findings)
    killed, missed, stale = [], [], []
    t0 = time.time()
    for vid, edits, props, note in KILL:
        if prop not in props:
            continue
        src = apply_edit(base, edits)
        if src is None:
            stale.append(vid)
            continue
        c, err = run_variant(prop, src)
        c.findings = [f for f in c.findings if f.ident not in base_ids]
        # an ANALYSIS-ERROR on a broken variant is accepted as "not silently passed" but recorded separately
        if c.findings:
            killed.append({'variant': vid, 'reported': sorted(set(f.rule for f in c.findings))[:4]})
        elif err:
            killed.append({'variant': vid, 'reported': ['ANALYSIS-ERROR (undecided, not a pass)']})
        else:
            missed.append(vid)
        if verbose:
            print('  kill %-40s %s' % (vid, 'KILLED ' + ','.join(sorted(set(f.rule for f in c.findings))[:3]) if c.findings
                                       else ('ERROR ' + err.split('\n')[0][:80] if err else 'MISSED')))
    loud, quiet = [], []
    for vid, edits, note in SILENT:
        src = apply_edit(base, edits)
        if src is None:
            stale.append(vid)
            continue
        c, err = run_variant(prop, src)
        c.findings = [f for f in c.findings if f.ident not in base_ids]
        if c.findings or err:
            loud.append({'variant': vid, 'reported': [f.rule + ' ' + f.key for f in c.findings][:3], 'error': (err or '')[:200]})
        else:
            quiet.append(vid)
        if verbose:
            print('  silent %-38s %s' % (vid, 'quiet' if not (c.findings or err) else 'LOUD ' + str([f.rule for f in c.findings][:3]) + (err or '')[:100]))
    clear_cache()
    extra = {
        'selftest_kill': {'killed': len(killed), 'missed': missed, 'total': len(killed) + len(missed), 'samples': killed[:12]},
        'selftest_silence': {'quiet': len(quiet), 'loud': loud, 'total': len(quiet) + len(loud)},
        'selftest_stale_variants': stale,
        'selftest_wall_s': round(time.time() - t0, 2),
    }
    if loud:
        raise AnalysisError('silence battery: behaviour-preserving variants raise an alarm for %s: %s' % (prop, loud[:3]))
    if missed:
        raise AnalysisError('kill matrix: variants breaking %s are not reported: %s' % (prop, missed))
    return extra


def main():
    import warnings
    warnings.simplefilter('ignore')
    sys.setrecursionlimit(10000)
    from .props import PROPS
    from .__main__ import run_property
    root = os.environ.get('SSJLINT_REPO', '/repo')
    base = Repo.load_sources(root)
    only = sys.argv[1:] or sorted(PROPS)
    bad = 0
    for prop in only:
        ctx0, err = run_property(prop, 'quick', repo=Repo(base))
        print('== %s (%d findings on the tree%s)' % (prop, len(ctx0.findings), ', ' + err if err else ''))
        try:
            ex = run_for_property(prop, ctx0, verbose=True)
            print('   killed %d/%d, quiet %d/%d, stale %s' % (ex['selftest_kill']['killed'], ex['selftest_kill']['total'],
                                                            ex['selftest_silence']['quiet'], ex['selftest_silence']['total'],
                                                            ex['selftest_stale_variants']))
        except AnalysisError as e:
            print('   SELFTEST FAILED: %s' % e)
            bad = 1
    return bad


if __name__ == '__main__':
    sys.exit(main())
