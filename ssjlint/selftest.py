"""Self-validation of the checker (thorough tier): kill matrix and silence battery.

Variants are single edits of the *current* sources held in memory (never written to disk); each
must still compile. A kill variant is labelled with the properties it breaks: the check of each
such property must report a finding. A silence variant preserves behaviour: every check must
stay silent and must not give up (no ANALYSIS-ERROR). A failure of either battery means the
checker is wrong -> AnalysisError (exit 2), never a VIOLATION.

An edit whose anchor text is no longer present in the tree (because /repo changed) is reported
as 'stale' and skipped - the batteries describe today's code."""
import ast
import os
import sys
import time

from . import AnalysisError
from .model import Repo
from .flow import clear_cache
from .variants import KILL, SILENT

P = 'py_stringsimjoin/'


def apply_edit(sources, edits):
    """edits: list of (relpath, old, new[, count]) -> new sources dict or None when stale"""
    out = dict(sources)
    for ed in edits:
        rel, old, new = ed[0], ed[1], ed[2]
        want = ed[3] if len(ed) > 3 else 1
        src = out.get(P + rel if not rel.startswith(P) else rel)
        key = P + rel if not rel.startswith(P) else rel
        if src is None or src.count(old) != want:
            return None
        out[key] = src.replace(old, new)
    for key in out:
        if out[key] is not sources.get(key):
            try:
                compile(out[key], key, 'exec', dont_inherit=True)
            except SyntaxError as e:
                raise AnalysisError('self-test variant does not compile: %s: %s' % (key, e))
    return out


def apply_unified_diff(sources, diff_text):
    """Apply a git unified diff to the in-memory sources. -> new dict, or None when a hunk does not match
    (the tree has moved on: the seeded change is stale)."""
    import re
    out = dict(sources)
    cur = None
    hunks = {}
    dlines = diff_text.split('\n')
    if dlines and dlines[-1] == '':
        dlines.pop()
    for line in dlines:
        if line.startswith('diff --git') or line.startswith('index ') or line.startswith('--- '):
            if line.startswith('diff --git'):
                cur = None
            continue
        if line.startswith('\\'):
            continue
        if line.startswith('+++ b/'):
            cur = line[6:].strip()
            hunks[cur] = []
        elif line.startswith('@@') and cur is not None:
            m = re.match(r'@@ -(\d+)(?:,(\d+))? \+(\d+)(?:,(\d+))? @@', line)
            hunks[cur].append([int(m.group(1)), []])
        elif cur is not None and hunks.get(cur) and (line[:1] in (' ', '+', '-')) and not line.startswith('+++') and not line.startswith('---'):
            hunks[cur][-1][1].append(line)
        elif cur is not None and hunks.get(cur) and line == '':
            hunks[cur][-1][1].append(' ')
    for rel, hs in hunks.items():
        if rel not in out:
            return None
        lines = out[rel].split('\n')
        offset = 0
        for start, body in hs:
            old = [l[1:] for l in body if l[:1] in (' ', '-')]
            new = [l[1:] for l in body if l[:1] in (' ', '+')]
            # strip a trailing artificial blank context line
            while old and new and old[-1] == '' and new[-1] == '' and (start - 1 + offset + len(old)) > len(lines):
                old.pop()
                new.pop()
            pos = start - 1 + offset
            if lines[pos:pos + len(old)] != old:
                # search nearby
                found = None
                for d in range(-40, 41):
                    if pos + d >= 0 and lines[pos + d:pos + d + len(old)] == old:
                        found = pos + d
                        break
                if found is None:
                    return None
                pos = found
            lines[pos:pos + len(old)] = new
            offset += len(new) - len(old)
        out[rel] = '\n'.join(lines)
        try:
            compile(out[rel], rel, 'exec', dont_inherit=True)
        except SyntaxError:
            return None
    return out


def seeded_variants(base):
    """the independently produced seeded changes under /verif/seeded as additional kill variants"""
    root = os.path.join(os.path.dirname(os.path.dirname(os.path.abspath(__file__))), 'seeded')
    out = []
    if not os.path.isdir(root):
        return out
    for d in sorted(os.listdir(root)):
        pf = os.path.join(root, d, 'patch.diff')
        mf = os.path.join(root, d, 'meta.json')
        if not os.path.exists(pf):
            continue
        import json
        prop = d[:3]
        try:
            with open(mf) as fh:
                prop = json.load(fh).get('property', prop)
        except Exception:
            pass
        with open(pf) as fh:
            src = apply_unified_diff(base, fh.read())
        out.append(('seeded-' + d, src, {prop}))
    return out


def refactor_variants(base):
    """independently produced behaviour-preserving refactorings under /verif/refactors (each verified by a
    differential test against the pristine tree): every check must stay silent on them"""
    root = os.path.join(os.path.dirname(os.path.dirname(os.path.abspath(__file__))), 'refactors')
    out = []
    if not os.path.isdir(root):
        return out
    for area in sorted(os.listdir(root)):
        d = os.path.join(root, area)
        if not os.path.isdir(d):
            continue
        for fn in sorted(os.listdir(d)):
            if fn.endswith('.diff'):
                with open(os.path.join(d, fn)) as fh:
                    src = apply_unified_diff(base, fh.read())
                out.append(('refactor-%s-%s' % (area, fn[:-5]), src))
    return out


def run_variant(prop, sources):
    from .__main__ import run_property
    clear_cache()
    repo = Repo(sources)
    ctx, err = run_property(prop, 'quick', repo=repo)
    return ctx, err


def _eval_variant(args):
    """worker: (kind, vid, prop, sources, base_ids) -> (kind, vid, status, reported, error)"""
    kind, vid, prop, src, base_ids = args
    import warnings
    warnings.simplefilter('ignore')
    sys.setrecursionlimit(10000)
    try:
        c, err = run_variant(prop, src)
    except AnalysisError as e:
        return kind, vid, 'error', [], str(e)
    new = [f for f in c.findings if f.ident not in base_ids]
    return kind, vid, ('found' if new else ('error' if err else 'none')), sorted(set(f.rule + ' ' + f.key for f in new))[:4], (err or '')[:200]


def run_for_property(prop, ctx0, verbose=False, jobs=None):
    """Kill variants labelled with `prop` must be reported by prop's check; silence variants must
    leave prop's check silent. Returns coverage extras for the evidence."""
    base = ctx0.repo.sources
    base_ids = set(f.ident for f in ctx0.findings)      # findings of the tree itself (e.g. known findings)
    t0 = time.time()
    tasks, stale = [], []
    for vid, edits, props, note in KILL:
        if prop not in props:
            continue
        src = apply_edit(base, edits)
        if src is None:
            stale.append(vid)
        else:
            tasks.append(('kill', vid, prop, src, base_ids))
    for vid, src, props in seeded_variants(base):
        if prop not in props:
            continue
        if src is None:
            stale.append(vid)
        else:
            tasks.append(('kill', vid, prop, src, base_ids))
    for vid, edits, note in SILENT:
        src = apply_edit(base, edits)
        if src is None:
            stale.append(vid)
        else:
            tasks.append(('silent', vid, prop, src, base_ids))
    for vid, src in refactor_variants(base):
        if src is None:
            stale.append(vid)
        else:
            tasks.append(('silent', vid, prop, src, base_ids))
    jobs = jobs or min(16, os.cpu_count() or 1, max(1, len(tasks)))
    if jobs > 1 and len(tasks) > 3:
        import multiprocessing
        ctxm = multiprocessing.get_context('fork')
        with ctxm.Pool(jobs) as pool:
            results = pool.map(_eval_variant, tasks, chunksize=1)
    else:
        results = [_eval_variant(t) for t in tasks]
    killed, missed, loud, quiet = [], [], [], []
    for kind, vid, status, reported, err in results:
        if kind == 'kill':
            if status == 'found':
                killed.append({'variant': vid, 'reported': reported})
            elif status == 'error':
                # an ANALYSIS-ERROR on a broken variant is "not silently passed" but recorded as such
                killed.append({'variant': vid, 'reported': ['ANALYSIS-ERROR (undecided, not a pass): ' + err[:80]]})
            else:
                missed.append(vid)
        else:
            if status == 'none':
                quiet.append(vid)
            else:
                loud.append({'variant': vid, 'reported': reported, 'error': err})
        if verbose:
            print('  %-6s %-40s %s' % (kind, vid, {'found': 'REPORTED ' + '; '.join(reported)[:80], 'error': 'ERROR ' + err[:80], 'none': 'silent'}[status]))
    clear_cache()
    extra = {
        'selftest_kill': {'killed': len(killed), 'missed': missed, 'total': len(killed) + len(missed), 'samples': killed[:12]},
        'selftest_silence': {'quiet': len(quiet), 'loud': loud, 'total': len(quiet) + len(loud)},
        'selftest_stale_variants': stale,
        'selftest_wall_s': round(time.time() - t0, 2),
    }
    if loud:
        raise AnalysisError('silence battery: behaviour-preserving variants raise an alarm for %s: %s' % (prop, loud[:3]))
    if missed:
        raise AnalysisError('kill matrix: variants breaking %s are not reported: %s' % (prop, missed))
    return extra


def refactor_matrix(base, only):
    """development aid: every refactoring x every property; prints the loud ones"""
    from .props import PROPS
    from .__main__ import run_property
    import multiprocessing
    tasks = []
    base_ids = {}
    for prop in sorted(PROPS):
        c0, _ = run_property(prop, 'quick', repo=Repo(base))
        base_ids[prop] = set(f.ident for f in c0.findings)
    stale = []
    for vid, src in refactor_variants(base):
        if only and not any(o in vid for o in only):
            continue
        if src is None:
            stale.append(vid)
            continue
        for prop in sorted(PROPS):
            tasks.append(('silent', vid + '|' + prop, prop, src, base_ids[prop]))
    with multiprocessing.get_context('fork').Pool(min(16, os.cpu_count() or 1)) as pool:
        res = pool.map(_eval_variant, tasks, chunksize=1)
    loud = {}
    for kind, vid, status, reported, err in res:
        v, prop = vid.split('|')
        if status != 'none':
            loud.setdefault(v, []).append('%s %s %s' % (prop, 'VIOLATION' if status == 'found' else 'ERROR', ('; '.join(reported) or err)[:150]))
    vids = sorted(set(t[1].split('|')[0] for t in tasks))
    for v in vids:
        print(v, 'silent' if v not in loud else 'LOUD')
        for l in loud.get(v, [])[:3]:
            print('     ', l)
    print('%d refactorings, %d silent, %d loud, stale %s' % (len(vids), len(vids) - len(loud), len(loud), stale))
    return 1 if loud else 0


def main():
    import warnings
    warnings.simplefilter('ignore')
    sys.setrecursionlimit(10000)
    from .props import PROPS
    from .__main__ import run_property
    root = os.environ.get('SSJLINT_REPO', '/repo')
    base = Repo.load_sources(root)
    if sys.argv[1:2] == ['--refactors']:
        return refactor_matrix(base, sys.argv[2:])
    only = sys.argv[1:] or sorted(PROPS)
    bad = 0
    for prop in only:
        ctx0, err = run_property(prop, 'quick', repo=Repo(base))
        print('== %s (%d findings on the tree%s)' % (prop, len(ctx0.findings), ', ' + err if err else ''))
        try:
            ex = run_for_property(prop, ctx0, verbose=True)
            print('   killed %d/%d, quiet %d/%d, stale %s' % (ex['selftest_kill']['killed'], ex['selftest_kill']['total'],
                                                            ex['selftest_silence']['quiet'], ex['selftest_silence']['total'],
                                                            ex['selftest_stale_variants']))
        except AnalysisError as e:
            print('   SELFTEST FAILED: %s' % e)
            bad = 1
    return bad


if __name__ == '__main__':
    sys.exit(main())
