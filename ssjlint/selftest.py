"""Self-validation of the checker (thorough tier): kill matrix, silence battery. Filled in later."""


def run_for_property(prop, ctx):
    return {}
