"""R-MISS and R-EMPTY: missing join values and empty token sets.

R-MISS  rows with a missing join value are removed by dropna(subset=[join_attr]) (exactly that column)
        before `.values`; the matcher never tokenizes or scores a missing value; the missing-pairs
        handler is called exactly when allow_missing, on the original tables; its loop domains - read off
        the masks that define them - cover (missing x all) and (present x missing) exactly once and
        nothing else; every itertuples over a table passes index=False.
R-EMPTY join workers: the empty branch runs exactly under `allow_empty and <no right tokens>`, iterates
        the empty-record list the index built under that same flag, and ends with the only `continue`;
        filter workers: handle_empty == allow_empty and measure not in (OVERLAP, EDIT_DISTANCE);
        index build: a row is recorded as empty exactly under `flag and num_tokens == 0`."""
import ast

from .. import AnalysisError
from ..flow import view_of, untag
from ..guards import Conds, Universe, to_formula, f_and, show, literals, TRUE
from ..model import U
from ..paths import enumerate_paths, symexec
from .common import (P, FILTERS, JOINS, GENERIC, MISSING, MATCHER, SET_SIM_JOIN, call_name, walk_own, expander, parse_expr)


# --------------------------------------------------------------------------- R-MISS

def check_dropna(ctx):
    repo = ctx.repo
    f = repo.fn(GENERIC, 'convert_dataframe_to_array')
    view = view_of(f)
    df_p, proj_p, join_p = f.params[0], f.params[1], f.params[2]
    flag_p = f.params[3] if len(f.params) > 3 else None
    conds = Conds(f.node, expander(view))
    drops = [c for c in repo.calls_in(f) if call_name(c) == 'dropna']
    ok = len(drops) == 1
    why = 'expected exactly one dropna call'
    if ok:
        c = drops[0]
        kws = {k.arg: k.value for k in c.keywords}
        sub = kws.get('subset')
        ok = isinstance(sub, (ast.List, ast.Tuple)) and len(sub.elts) == 1 and U(sub.elts[0]) == join_p
        why = 'dropna subset is `%s`, must be exactly [%s]: rows are dropped for a missing value in another column, or ' \
              'kept with a missing join value' % (U(sub) if sub is not None else 'absent (all columns)', join_p)
        if ok and 'axis' in kws:
            ok = isinstance(kws['axis'], ast.Constant) and kws['axis'].value in (0, 'index')
            why = 'dropna axis is %s' % U(kws['axis'])
        if ok and 'how' in kws:
            ok = isinstance(kws['how'], ast.Constant) and kws['how'].value == 'any'
            why = 'dropna how=%s' % U(kws['how'])
        if ok and 'thresh' in kws:
            ok, why = False, 'dropna thresh given'
        if ok:
            recv = untag(view.expand(c.func.value, view.stmt_of(c)))
            ok = U(recv) == '%s[%s]' % (df_p, proj_p)
            why = 'dropna is applied to `%s`, not to the projection %s[%s]' % (U(recv), df_p, proj_p)
        if ok and flag_p:
            st = view.stmt_of(c)
            w = Universe().implies(to_formula(parse_expr(flag_p)), conds.of(st))
            ok = w is None
            why = 'dropna does not run whenever %s is true' % flag_p
    ctx.check('R-MISS/dropna', f, 'subset', ok, why, drops[0] if drops else f.node,
              sample='%s[%s].dropna(axis=0, subset=[%s])' % (df_p, proj_p, join_p))
    # the returned array is `.values` of what was computed on that path
    rets = [n for n in walk_own(f.node) if isinstance(n, ast.Return)]
    okr = bool(rets)
    for r in rets:
        e = r.value
        okr = okr and isinstance(e, ast.Attribute) and e.attr == 'values' and isinstance(e.value, ast.Name)
        if okr:
            ds = view.reaching(e.value.id, r)
            texts = sorted(set(U(untag(view.expand(d.value, d.node))) if d.node is not None else U(d.value) for d in ds if d.value is not None))
            okr = len(ds) >= 1 and all('%s[%s]' % (df_p, proj_p) in t for t in texts)
    ctx.check('R-MISS/dropna', f, 'values', okr, 'the array is not `.values` of the projected (and cleaned) frame', f.node,
              sample='.values of the projected frame')
    # callers never switch the cleaning off
    n = 0
    for g in repo.all_funcs():
        if g.module.relpath.endswith('disk_edit_distance_join.py'):
            continue
        for c in repo.calls_in(g):
            r = repo.resolve_call(g, c)
            if r is not None and r[0] is f:
                n += 1
                a = r[2].get(flag_p) if flag_p else None
                is_default = a is None or f.defaults.get(flag_p) is a
                okc = is_default or (isinstance(a, ast.Constant) and a.value is True)
                side_ok = True
                ctx.check('R-MISS/dropna-callers', g, 'call %d in %s' % (n, g.qual), okc,
                          'convert_dataframe_to_array is called with %s=%s: rows with a missing join value reach the index'
                          % (flag_p, U(a) if a is not None else ''), c, nontrivial=False)
    ctx.floor('R-MISS/dropna-callers', n, 20, 'convert_dataframe_to_array call sites')


def check_matcher_missing(ctx):
    repo = ctx.repo
    f = repo.fn(MATCHER, '_apply_matcher_split')
    view = view_of(f)
    cfg = view.cfg
    loops = [n for n in walk_own(f.node) if isinstance(n, ast.For) and 'candset' in U(n.iter)]
    if len(loops) != 1:
        raise AnalysisError('%s: candidate loop not found' % f.where)
    lp = loops[0]
    head = cfg.node_of(lp)
    first = [s for s, lab in head.succ if lab == 'iter'][0]
    targets = []
    for n in ast.walk(lp):
        if isinstance(n, ast.Call) and ((isinstance(n.func, ast.Name) and n.func.id == 'sim_function') or
                                        (isinstance(n.func, ast.Attribute) and n.func.attr == 'tokenize')):
            targets.append(n)
    if not targets:
        raise AnalysisError('%s: no sim_function/tokenize call in the candidate loop' % f.where)
    bad = None
    npaths = 0
    for t in targets:
        st = view.stmt_of(t)
        node = cfg.node_of(st)
        for p in enumerate_paths(cfg, first, {node.id}, stop={head.id}):
            npaths += 1
            ps = symexec(p)
            guarded = False
            for e, pol, _ in ps.conds:
                if not pol and 'isnull' in U(e):
                    fm = to_formula(e)
                    vals = [x for _, x, _ in literals(fm)]
                    sides = set()
                    for x in vals:
                        if 'isnull' in U(x):
                            from ..side import expr_side
                            sides.add(expr_side(x))
                    if {'L', 'R'} <= sides and fm[0] == 'or':
                        guarded = True
            if not guarded and bad is None:
                bad = U(t)[:60]
    # completeness: an iteration that saw a missing value with allow_missing on must reach the row append
    from ..paths import loop_body_paths
    sinks = [n for n in ast.walk(lp) if isinstance(n, ast.Expr) and isinstance(n.value, ast.Call) and call_name(n.value) == 'append'
             and isinstance(n.value.func.value, ast.Name)
             and any(isinstance(x, ast.Call) and U(x.func).endswith('DataFrame') and x.args and U(x.args[0]) == n.value.func.value.id
                     for x in ast.walk(f.node))]
    lost = None
    n_keep = 0
    for p, how in loop_body_paths(view, lp):
        ps = symexec(p)
        if any(isinstance(e, ast.Constant) and bool(e.value) != pol for e, pol, _ in ps.conds):
            continue        # infeasible: a flag set earlier on this path contradicts the branch taken
        flat = []
        for e, pol, _ in ps.conds:
            fm = to_formula(e, pol)
            for part in (fm[1] if fm[0] == 'and' else [fm]):
                if part[0] == 'lit':
                    flat.append((U(part[1]), part[2]))
                elif part[0] == 'or' and all(x[0] == 'lit' for x in part[1]):
                    flat.append((' or '.join(U(x[1]) for x in part[1]), all(x[2] for x in part[1])))
        miss = any(pol and 'isnull' in t for t, pol in flat)
        allow = ('allow_missing', True) in flat and ('allow_missing', False) not in flat
        if not (miss and allow):
            continue
        n_keep += 1
        reached = any(step.node.ast is sk for step in p for sk in sinks)
        if not reached and lost is None:
            lost = ' and '.join(('%s' if pol else 'not(%s)') % U(e)[:50] for e, pol, _ in ps.conds[-5:])
    ctx.check('R-MISS/matcher', f, 'missing pairs kept', lost is None and n_keep > 0,
              'a candidate row with a missing value is not emitted although allow_missing is set (path: %s)' % lost, lp,
              sample='%d paths with a missing value and allow_missing all reach the row append' % n_keep)
    ctx.check('R-MISS/matcher', f, 'isnull before use', bad is None,
              '`%s` can run on a missing value: the test `isnull(left) or isnull(right)` does not precede it on every path'
              % bad, lp, sample='%d paths to sim_function/tokenize all pass not(isnull(l) or isnull(r))' % npaths)


def _domain(view, it, stmt):
    """iter expression of a handler loop -> (table param, 'missing'|'present'|'all', attr, index_false)"""
    e = view.expand(it, stmt)
    idx_false = None
    if isinstance(e, ast.Call) and call_name(e) == 'itertuples':
        kws = {k.arg: k.value for k in e.keywords}
        idx_false = 'index' in kws and isinstance(kws['index'], ast.Constant) and kws['index'].value is False
        e = e.func.value
    if isinstance(e, ast.Name):
        return e.id, 'all', None, idx_false
    if isinstance(e, ast.Subscript) and isinstance(e.value, ast.Attribute) and e.value.attr == 'loc':
        e = ast.Subscript(value=e.value.value, slice=e.slice, ctx=ast.Load())
    if isinstance(e, ast.Subscript) and isinstance(e.value, ast.Name):
        m = e.slice
        flip = False
        while isinstance(m, ast.UnaryOp) and isinstance(m.op, ast.Invert):
            m, flip = m.operand, not flip
        kind = col = None
        if isinstance(m, ast.Call):
            fn = U(m.func)
            kind = {'pd.isnull': 'missing', 'pd.isna': 'missing', 'pd.notnull': 'present', 'pd.notna': 'present'}.get(fn)
            if kind and len(m.args) == 1:
                col = m.args[0]
            elif isinstance(m.func, ast.Attribute) and m.func.attr in ('isnull', 'isna', 'notnull', 'notna') and not m.args:
                kind = 'missing' if m.func.attr in ('isnull', 'isna') else 'present'
                col = m.func.value
        if kind and isinstance(col, ast.Subscript) and U(col.value) == e.value.id:
            if flip:
                kind = 'present' if kind == 'missing' else 'missing'
            return e.value.id, kind, U(col.slice), idx_false
    if isinstance(e, ast.Call) and isinstance(e.func, ast.Attribute) and e.func.attr == 'drop' and isinstance(e.func.value, ast.Name) \
            and e.args and isinstance(e.args[0], ast.Attribute) and e.args[0].attr == 'index':
        # T.drop(<other frame>.index): rows are removed by LABEL - with repeated labels that is not "the rows of the
        # other frame"
        return e.func.value.id, 'present', '<row labels of %s>' % U(e.args[0].value), idx_false
    if isinstance(e, ast.Call) and isinstance(e.func, ast.Attribute) and e.func.attr == 'dropna' and isinstance(e.func.value, ast.Name):
        # rows without a missing value in the `subset` columns; without subset: in ANY column
        kws = {k.arg: k.value for k in e.keywords}
        sub = kws.get('subset')
        if sub is None:
            return e.func.value.id, 'present', '<any column>', idx_false
        if isinstance(sub, (ast.List, ast.Tuple)) and len(sub.elts) == 1:
            return e.func.value.id, 'present', U(sub.elts[0]), idx_false
        return e.func.value.id, 'present', U(sub), idx_false
    return None


def check_partition(ctx):
    repo = ctx.repo
    f = repo.fn(MISSING, 'get_pairs_with_missing_value')
    view = view_of(f)
    lt, rt = f.params[0], f.params[1]
    lattr, rattr = f.params[4], f.params[5]
    outer = [n for n in f.node.body if isinstance(n, ast.For)]
    doms = []
    for lp in outer:
        inner = [n for n in lp.body if isinstance(n, ast.For)]
        if len(inner) != 1:
            raise AnalysisError('%s: expected nested row loops' % f.where)
        d1 = _domain(view, lp.iter, lp)
        d2 = _domain(view, inner[0].iter, inner[0])
        if d1 is None or d2 is None:
            raise AnalysisError('%s: loop domain not recognisable (%s x %s)' % (f.where, U(lp.iter), U(inner[0].iter)))
        by = {}
        for d, var in ((d1, lp.target), (d2, inner[0].target)):
            by[d[0]] = d
        if set(by) != {lt, rt}:
            ctx.check('R-MISS/partition', f, 'loop %d tables' % (len(doms) + 1), False,
                      'a missing-pairs loop pairs %s with %s, not a left row with a right row' % (d1[0], d2[0]), lp)
            continue
        for tab, attr in ((lt, lattr), (rt, rattr)):
            if by[tab][2] is not None and by[tab][2] != attr:
                ctx.check('R-MISS/partition', f, 'loop %d mask' % (len(doms) + 1), False,
                          'rows of %s are selected by missing-ness of `%s`, not of its join attribute %s' % (tab, by[tab][2], attr), lp)
        for d in (d1, d2):
            ctx.check('R-MISS/itertuples', f, 'loop %d over %s' % (len(doms) + 1, d[0]), d[3] is True,
                      'itertuples() without index=False: every positional column index is shifted by one', lp,
                      sample='itertuples(index=False)')
        doms.append((by[lt][1], by[rt][1]))
    count = {}
    for l in ('missing', 'present'):
        for r in ('missing', 'present'):
            c = 0
            for dl, dr in doms:
                if dl in (l, 'all') and dr in (r, 'all'):
                    c += 1
            count[(l, r)] = c
    want = {('missing', 'missing'): 1, ('missing', 'present'): 1, ('present', 'missing'): 1, ('present', 'present'): 0}
    bad = [(k, count[k]) for k in sorted(want) if count[k] != want[k]]
    ctx.check('R-MISS/partition', f, 'coverage', not bad,
              'missing-value pairs must be produced exactly once for (missing,*) and (present,missing) and never for '
              '(present,present); loop domains %s give (left,right)->count %s' % (doms, bad), f.node,
              sample='domains %s' % doms)


def check_handler_calls(ctx):
    repo = ctx.repo
    n = 0
    for g in repo.all_funcs():
        if g.module.relpath.endswith('disk_edit_distance_join.py'):
            continue
        view = None
        for c in repo.calls_in(g):
            r = repo.resolve_call(g, c)
            if r is None or r[0].name != 'get_pairs_with_missing_value':
                continue
            n += 1
            view = view or view_of(g)
            conds = Conds(g.node, None)
            st = view.stmt_of(c)
            flag = 'allow_missing' if 'allow_missing' in g.params else 'self.allow_missing'
            w = Universe().equivalent(conds.of(st), to_formula(parse_expr(flag)))
            ctx.check('R-MISS/handler-call', g, 'condition', w is None,
                      'missing-value pairs are generated under `%s`, must be exactly `%s`' % (show(conds.of(st)), flag), c,
                      sample='called iff %s' % flag)
            b = r[2]
            ok = U(b['ltable']) == 'ltable' and U(b['rtable']) == 'rtable'
            ctx.check('R-MISS/handler-call', g, 'tables', ok,
                      'the handler must scan the original tables (it needs the rows dropna removed), got (%s, %s)'
                      % (U(b['ltable']), U(b['rtable'])), c, sample='(ltable, rtable)')
            # the concat keeps both frames
            cat = [x for x in walk_own(g.node) if isinstance(x, ast.Call) and U(x.func).endswith('concat')
                   and x.args and isinstance(x.args[0], ast.List) and len(x.args[0].elts) == 2]
            tgt = st.targets[0].id if isinstance(st, ast.Assign) and isinstance(st.targets[0], ast.Name) else None
            okc = any(tgt in [U(e) for e in x.args[0].elts] and view.dominates(st, view.stmt_of(x)) for x in cat)
            # ... unconditionally once they were generated: the concat runs exactly when the handler ran
            if okc:
                xs = [x for x in cat if tgt in [U(e) for e in x.args[0].elts]]
                okc = Universe().equivalent(conds.of(view.stmt_of(xs[0])), conds.of(st)) is None
            ctx.check('R-MISS/handler-call', g, 'concat', okc,
                      'the missing-value pairs are not concatenated to the result whenever they were generated (e.g. only when '
                      'the result over present values is non-empty)', c, sample='pd.concat([result, missing]) iff allow_missing')
    ctx.floor('R-MISS/handler-call', n, 10, 'handler call sites')


# --------------------------------------------------------------------------- R-EMPTY

def _empty_len_atom(e):
    t = U(e)
    return 'len(' in t or 'num_tokens' in t


def check_workers_empty(ctx):
    repo = ctx.repo
    workers = [(SET_SIM_JOIN, 'set_sim_join', 'allow_empty'),
               (P + 'join/overlap_coefficient_join_py.py', '_overlap_coefficient_join_split', 'allow_empty')]
    for cls in ('SizeFilter', 'PrefixFilter', 'PositionFilter'):
        workers.append((FILTERS[cls][0], '_filter_tables_split', 'handle_empty'))
    for path, qual, flag in workers:
        f = repo.fn(path, qual)
        view = view_of(f)
        conds = Conds(f.node, expander(view))
        loops = [(n, n.iter) for n in walk_own(f.node) if isinstance(n, ast.For) and 'empty' in U(n.iter)]
        if not loops:
            # the pairing written as a comprehension / generator (rows.extend(make_row(..) for l_id in l_empty_records))
            for n in walk_own(f.node):
                if isinstance(n, (ast.GeneratorExp, ast.ListComp)) and len(n.generators) == 1 and 'empty' in U(n.generators[0].iter):
                    loops.append((view.stmt_of(n), n.generators[0].iter))
        if not loops:
            # the pairing loop moved into a helper: the call statement is the site, the argument bound to the
            # parameter the helper iterates is the iterated list
            for n in walk_own(f.node):
                if not isinstance(n, ast.Call):
                    continue
                r = repo.resolve_call(f, n)
                if r is None or r[1] != 'func':
                    continue
                callee, _, b = r
                for p_, a in b.items():
                    if 'empty' in U(a) and any(isinstance(x, ast.For) and isinstance(x.iter, ast.Name) and x.iter.id == p_
                                               for x in walk_own(callee.node)):
                        loops.append((view.stmt_of(n), a))
        if len(loops) != 1:
            raise AnalysisError('%s: loop over the empty records not found' % f.where)
        lp, lp_iter = loops[0]
        c = conds.of(lp)
        lits = [(e, pol) for _, e, pol in literals(c)]
        # reference: flag and <right token count> == 0
        lens = [e for e, pol in lits if isinstance(e, ast.Compare) and _empty_len_atom(e)]
        if len(set(U(x) for x in lens)) != 1:
            ctx.check('R-EMPTY/guard', f, 'empty branch', False,
                      'the empty branch runs under `%s`, expected `%s and <right token count> == 0`' % (show(c), flag), lp)
            continue
        cnt = lens[0].left
        flag_x = view.expand(ast.Name(id=flag, ctx=ast.Load()), lp)
        ref = to_formula(ast.BoolOp(op=ast.And(), values=[flag_x, ast.Compare(left=cnt, ops=[ast.Eq()], comparators=[ast.Constant(0)])]))
        w = Universe(int_atoms=lambda a: True).equivalent(c, ref)
        from ..side import expr_side
        cnt_x = view.expand(cnt, lp)
        right = expr_side(cnt) == 'R' or expr_side(cnt_x) == 'R' or 'r_' in U(cnt)
        ctx.check('R-EMPTY/guard', f, 'empty branch', w is None and right,
                  'the empty branch runs under `%s`, expected exactly `%s and <right token count> == 0`' % (show(c), flag), lp,
                  sample=show(c))
        # provenance of the iterated list: <Index>(...).build(<same flag>, ...)['empty_records']
        it = view.expand(lp_iter, lp)
        ok = isinstance(it, ast.Subscript) and isinstance(it.slice, ast.Constant) and it.slice.value == 'empty_records' \
            and isinstance(it.value, ast.Call) and call_name(it.value) == 'build'
        got = None
        if ok:
            b = it.value
            arg0 = b.args[0] if b.args else None
            fl = view.expand(ast.Name(id=flag, ctx=ast.Load()), lp)
            got = U(arg0) if arg0 is not None else None
            ok = arg0 is not None and U(arg0) == U(fl)
            recv = b.func.value
            ok = ok and isinstance(recv, ast.Call) and recv.args and U(recv.args[0]) in ('ltable', 'ltable_list')
        ctx.check('R-EMPTY/records', f, 'empty records', ok,
                  'the empty left rows are not `<index over the left table>.build(%s)[\'empty_records\']` (build flag: %s): '
                  'empty-empty pairs are lost or produced although not allowed' % (flag, got), lp,
                  sample='build(%s)[\'empty_records\'] of the index over the left table' % flag)
        # the branch ends the iteration: a `continue` with the guard's condition, and no other continue
        def innermost_loop(target):
            best = None
            for n in walk_own(f.node):
                if isinstance(n, (ast.For, ast.While)) and n is not target and any(x is target for st_ in n.body for x in ast.walk(st_)):
                    if best is None or any(x is n for x in ast.walk(best)):
                        best = n
            return best
        row_loop = innermost_loop(lp)
        # only the `continue`s of the row loop itself count (a guard-clause continue of the candidate loop is another matter)
        conts = [n for n in walk_own(f.node) if isinstance(n, ast.Continue) and innermost_loop(n) is row_loop]
        okc = len(conts) == 1 and Universe(int_atoms=lambda a: True).equivalent(conds.of(conts[0]), ref) is None
        ctx.check('R-EMPTY/continue', f, 'continue', okc,
                  'an empty right row must skip the probe exactly when the empty branch ran (found %d continue statements)'
                  % len(conts), conts[0] if conts else lp, sample='continue under the same guard')
    # handle_empty definition in the four filter workers
    for cls in ('SizeFilter', 'PrefixFilter', 'PositionFilter', 'SuffixFilter'):
        f = repo.fn(FILTERS[cls][0], '_filter_tables_split')
        defs = [n for n in walk_own(f.node) if isinstance(n, ast.Assign) and isinstance(n.targets[0], ast.Name)
                and n.targets[0].id == 'handle_empty']
        if len(defs) != 1:
            raise AnalysisError('%s: handle_empty definition not found' % f.where)
        recv = f.params[8]
        ref = to_formula(parse_expr("%s.allow_empty and %s.sim_measure_type not in ['OVERLAP', 'EDIT_DISTANCE']" % (recv, recv)))
        uni = Universe()
        w = uni.equivalent(to_formula(defs[0].value), ref)
        ctx.check('R-EMPTY/handle-empty', f, 'definition', w is None,
                  'handle_empty is `%s`; empty-empty pairs survive iff allow_empty and the measure is not OVERLAP / '
                  'EDIT_DISTANCE' % U(defs[0].value)[:120], defs[0], sample=U(defs[0].value)[:100])
    # suffix filter: both sides empty
    f = repo.fn(FILTERS['SuffixFilter'][0], '_filter_tables_split')
    conds = Conds(f.node, None)
    conts = [n for n in walk_own(f.node) if isinstance(n, ast.Continue)]
    uni = Universe(int_atoms=lambda a: True)
    ref = to_formula(parse_expr('handle_empty and l_num_tokens == 0 and r_num_tokens == 0'))
    hit = [c for c in conts if Universe(int_atoms=lambda a: True).equivalent(conds.of(c), ref) is None]
    ctx.check('R-EMPTY/guard', f, 'suffix empty branch', len(hit) == 1,
              'SuffixFilter keeps an all-empty pair exactly under handle_empty and both token counts == 0', f.node,
              sample='handle_empty and l_num_tokens == 0 and r_num_tokens == 0')


def check_index_empty(ctx):
    repo = ctx.repo
    for cls, (fpath, ipath, icls) in sorted(FILTERS.items()):
        if icls is None:
            continue
        b = repo.fn(ipath, icls + '.build')
        view = view_of(b)
        conds = Conds(b.node, expander(view))
        flag = b.params[1]
        apps = [n for n in walk_own(b.node) if isinstance(n, ast.Expr) and isinstance(n.value, ast.Call)
                and call_name(n.value) == 'append' and 'empty' in U(n.value.func.value)]
        if len(apps) != 1:
            raise AnalysisError('%s: empty_records append not found' % b.where)
        a = apps[0]
        c = conds.of(a)
        lens = [e for _, e, pol in literals(c) if isinstance(e, ast.Compare) and 'len(' in U(e)
                and isinstance(e.comparators[0], ast.Constant) and e.comparators[0].value in (0, 1)]
        ok = False
        if len(set(U(x) for x in lens)) == 1:
            cnt = lens[0].left
            ref = to_formula(parse_expr('%s and %s == 0' % (flag, U(cnt))))
            ok = Universe(int_atoms=lambda a_: True).equivalent(c, ref) is None and 'tokenize(' in U(cnt) and 'self.index_attr' in U(cnt)
        from .once import _discover_counter
        rid = _discover_counter(b, view, 'self.table') or 'row_id'
        ctx.check('R-EMPTY/index', b, 'empty_records', ok and U(a.value.args[0]) == rid,
                  'a row is recorded as empty under `%s`, expected exactly `%s and <its token count> == 0`, recording row_id'
                  % (show(c)[:120], flag), a, sample=show(c)[:120])
        rets = [n for n in walk_own(b.node) if isinstance(n, ast.Return)]
        okr = len(rets) == 1 and isinstance(rets[0].value, ast.Dict) and any(
            isinstance(k, ast.Constant) and k.value == 'empty_records' and U(v) == U(a.value.func.value)
            for k, v in zip(rets[0].value.keys, rets[0].value.values))
        ctx.check('R-EMPTY/index', b, 'returned', okr, "build() does not return the list under 'empty_records'", b.node,
                  nontrivial=False)


def check_size_index_posting(ctx):
    """SizeIndex posts a row under its token count; a row without tokens must never be posted (an empty probe
    would otherwise find it whatever allow_empty says)."""
    repo = ctx.repo
    b = repo.fn(P + 'index/size_index.py', 'SizeIndex.build')
    view = view_of(b)
    conds = Conds(b.node, expander(view))
    posts = [n for n in walk_own(b.node) if isinstance(n, ast.Expr) and isinstance(n.value, ast.Call) and call_name(n.value) == 'append'
             and 'self.index' in U(n.value.func.value)]
    if len(posts) != 1:
        raise AnalysisError('%s: posting append not found' % b.where)
    c = conds.of(posts[0])
    cnts = [e for _, e, _ in literals(c) if isinstance(e, ast.Compare) and 'len(' in U(e)
            and isinstance(e.comparators[0], ast.Constant) and e.comparators[0].value in (0, 1)]
    ok = False
    if cnts:
        cnt = cnts[0].left
        w = Universe(int_atoms=lambda a: True).implies(c, to_formula(parse_expr('%s != 0' % U(cnt))))
        ok = w is None
    ctx.check('R-EMPTY/size-posting', b, 'posting', ok,
              'SizeIndex posts a row under `%s`; a row with no tokens can be posted (under size 0) and is then returned for an '
              'empty probe even when empty pairs are not allowed' % show(c)[:120], posts[0],
              sample='posting only when the token count is not 0')


def check_filter_flag_reaches_base(ctx):
    """filter_pair / filter_candset / filter_tables read self.allow_missing, which only the base class stores: every
    filter's constructor must hand its allow_missing to Filter.__init__ on every path, and that must store it"""
    repo = ctx.repo
    from .common import FILTER_BASE
    base = repo.fn(FILTER_BASE, 'Filter.__init__')
    stores = [n for n in walk_own(base.node) if isinstance(n, ast.Assign) and U(n.targets[0]) == 'self.allow_missing']
    ctx.check('R-MISS/flag-stored', base, 'Filter.__init__', len(stores) == 1 and U(stores[0].value) == 'allow_missing'
              and stores[0] in base.node.body,
              'Filter.__init__ does not store its allow_missing argument as self.allow_missing', base.node,
              sample='self.allow_missing = allow_missing')
    for cls, (path, _, _) in sorted(FILTERS.items()):
        f = repo.fn(path, cls + '.__init__')
        view = view_of(f)
        calls = []
        for c in repo.calls_in(f):
            if isinstance(c.func, ast.Attribute) and c.func.attr == '__init__':
                r = repo.resolve_call(f, c)
                direct = isinstance(c.func.value, ast.Call) and call_name(c.func.value) == 'super' or U(c.func.value) == 'Filter'
                if (r is not None and r[0] is base) or direct:
                    calls.append(c)
        ok = False
        why = 'the constructor never calls Filter.__init__: self.allow_missing stays unset'
        if calls:
            c = calls[0]
            args = [a for a in c.args if not (isinstance(a, ast.Name) and a.id == 'self')] + [k.value for k in c.keywords if k.arg == 'allow_missing']
            ok = len(args) == 1 and U(view.expand(args[0], view.stmt_of(c))) == 'allow_missing'
            why = 'Filter.__init__ is called with `%s`, not with the allow_missing the caller passed' % (U(args[0])[:40] if args else 'nothing')
            if ok:
                # on every normal path: the call is a top-level statement of the constructor (validators before it raise)
                ok = view.stmt_of(c) in f.node.body
                why = 'Filter.__init__ is called only conditionally'
        ctx.check('R-MISS/flag-stored', f, cls, ok, why, calls[0] if calls else f.node, sample='%s -> Filter.__init__(allow_missing)' % cls)


def run(ctx, miss=True, empty=True):
    if miss:
        ctx.group('R-MISS')
        check_filter_flag_reaches_base(ctx)
        check_dropna(ctx)
        check_matcher_missing(ctx)
        check_partition(ctx)
        check_handler_calls(ctx)
    if empty:
        ctx.group('R-EMPTY')
        check_workers_empty(ctx)
        check_index_empty(ctx)
        check_size_index_posting(ctx)
