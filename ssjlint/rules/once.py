"""R-ONCE: exactly-once-per-iteration path rule for counters and per-row appends.

A position/row counter is correct iff it starts at 0, is read before it is advanced on every path
of an iteration, and is advanced by exactly 1 on every path that continues with the next element
(`continue` paths included). `at_most=True` relaxes "exactly" to "at most" where a stale position only
loosens a bound (PositionFilter.filter_pair's l_pos)."""
import ast

from .. import AnalysisError
from ..flow import view_of
from ..model import U
from ..paths import loop_body_paths, symexec
from .common import P, FILTERS, TOKORD, FILTER_BASE, PROFILER, walk_own, call_name

# (module, function, counter, how to find the loop, at_most)
COUNTERS = [
    (P + 'index/inverted_index.py', 'InvertedIndex.build', 'row_id', 'self.table', False),
    (P + 'index/position_index.py', 'PositionIndex.build', 'row_id', 'self.table', False),
    (P + 'index/prefix_index.py', 'PrefixIndex.build', 'row_id', 'self.table', False),
    (P + 'index/size_index.py', 'SizeIndex.build', 'row_id', 'self.table', False),
    (P + 'index/position_index.py', 'PositionIndex.build', 'pos', 'tokenize(', False),
    (P + 'filter/position_filter.py', 'PositionFilter.find_candidates', 'probe_pos', 'probe_tokens', False),
    (P + 'filter/position_filter.py', 'PositionFilter.filter_pair', 'r_pos', 'rstring', False),
    # (the rank counter of the token-ordering generators is decided by R-ORDER/rank)
    (TOKORD, 'gen_token_ordering_for_tables', 'table_index', 'table_list', False),
]


def _loop_of_counter(f, name):
    """the innermost loop whose body (directly or nested, but not inside a deeper loop) advances `name`"""
    found = []

    def rec(stmts, loop):
        for st in stmts:
            if isinstance(st, ast.AugAssign) and isinstance(st.target, ast.Name) and st.target.id == name:
                found.append(loop)
            for fld in ('body', 'orelse', 'finalbody'):
                sub = getattr(st, fld, None)
                if sub:
                    rec(sub, st if isinstance(st, (ast.For, ast.While)) and fld == 'body' else loop)
    rec(f.node.body, None)
    loops = [l for l in found if l is not None]
    if not loops:
        return None
    # all advances must sit in the same loop
    if any(l is not loops[0] for l in loops):
        return 'MULTI'
    return loops[0]


def _discover_counter(f, view, over):
    """the counter by its role: the one name advanced by 1 directly in (or enumerated by) the loop over the `over`
    sequence - used when the catalogued name does not occur in the function (a renaming)"""
    from ..side import side_of_name, expr_side
    cands = []
    tops = []
    want_side = side_of_name(over) if over.isidentifier() else None
    for n in walk_own(f.node):
        if not isinstance(n, ast.For):
            continue
        it = n.iter
        if want_side and expr_side(it) not in (None, want_side):
            continue            # the sibling loop over the other side's tokens
        if isinstance(it, ast.Call) and call_name(it) == 'enumerate' and it.args and isinstance(n.target, ast.Tuple) \
                and isinstance(n.target.elts[0], ast.Name):
            if over in U(view.expand(it.args[0], n)):
                cands.append(n.target.elts[0].id)
            continue
        if over not in U(view.expand(it, n)):
            continue

        def direct(stmts):
            for st in stmts:
                if isinstance(st, ast.AugAssign) and isinstance(st.target, ast.Name) and isinstance(st.op, ast.Add) \
                        and isinstance(st.value, ast.Constant) and st.value.value == 1:
                    cands.append(st.target.id)
                if isinstance(st, (ast.For, ast.While)):
                    continue
                for fld in ('body', 'orelse', 'finalbody'):
                    sub = getattr(st, fld, None)
                    if sub:
                        direct(sub)
        direct(n.body)
        top = [st.target.id for st in n.body if isinstance(st, ast.AugAssign) and isinstance(st.target, ast.Name)]
        tops.extend(top)
    cands = sorted(set(cands))
    if len(cands) > 1:
        # several names advance in that loop: the position counter is the one advanced at the top level of the body
        # (a tally such as an overlap count advances only under a test)
        narrowed = [c for c in cands if c in tops]
        if len(narrowed) == 1:
            return narrowed[0]
    return cands[0] if len(cands) == 1 else None


def check_counter(ctx, path, qual, name, at_most=False, over=None):
    repo = ctx.repo
    f = repo.fn(path, qual)
    view = view_of(f)
    key = name
    if over is not None and not any(isinstance(n, ast.Name) and n.id == name for n in ast.walk(f.node)):
        found = _discover_counter(f, view, over)
        if found is not None:
            name = found
    loop = _loop_of_counter(f, name)
    if loop is None:
        # enumerate idiom: for name, x in enumerate(..)
        for n in walk_own(f.node):
            if isinstance(n, ast.For) and isinstance(n.iter, ast.Call) and call_name(n.iter) == 'enumerate' \
                    and isinstance(n.target, ast.Tuple) and isinstance(n.target.elts[0], ast.Name) and n.target.elts[0].id == name:
                want = 1 if name == 'order_idx' else 0
                start = 0
                if len(n.iter.args) > 1 and isinstance(n.iter.args[1], ast.Constant):
                    start = n.iter.args[1].value
                elif len(n.iter.args) > 1:
                    start = None
                for k_ in n.iter.keywords:
                    start = k_.value.value if (k_.arg == 'start' and isinstance(k_.value, ast.Constant)) else None
                ctx.check('R-ONCE/counter', f, key, start == want,
                          '`%s` comes from enumerate() starting at %s, expected %d' % (name, start, want), n,
                          sample='enumerate idiom, start %s' % start)
                if over is not None:
                    it = U(view.expand(n.iter.args[0], n))
                    ctx.check('R-ONCE/loop', f, key, over in it and 'probe(' not in it,
                              '`%s` enumerates `%s`; it must count the elements of the %s sequence' % (name, it[:60], over), n,
                              sample='enumerates %s' % it[:60])
                return
        raise AnalysisError('%s: counter `%s` not found (neither advanced in a loop nor an enumerate target)' % (f.where, name))
    if loop == 'MULTI':
        ctx.check('R-ONCE/counter', f, key, False, '`%s` is advanced in more than one loop' % name, f.node)
        return
    if over is not None and isinstance(loop, ast.For):
        it = U(view.expand(loop.iter, loop))
        ctx.check('R-ONCE/loop', f, key, over in it and 'probe(' not in it,
                  '`%s` is advanced once per element of `%s`; it must count the elements of the %s sequence'
                  % (name, U(loop.iter)[:60], over), loop, sample='advanced per element of %s' % U(loop.iter)[:60])
    # initial value 0 (1 for the rank counter) reaches the loop from outside
    init = [d for d in view.reaching(name, loop) if d.node is not None and not any(x is d.node for x in ast.walk(loop))]
    want = 1 if name == 'order_idx' else 0
    init_ok = len(init) >= 1 and all(isinstance(d.value, ast.Constant) and d.value.value == want for d in init)
    ctx.check('R-ONCE/init', f, key, init_ok,
              '`%s` does not start at %d before the loop (%s)' % (name, want, [U(d.value) if d.value is not None else '?' for d in init]),
              loop, sample='%s = %d before the loop' % (name, want))
    paths = loop_body_paths(view, loop)
    bad = None
    n_next = 0
    for p, how in paths:
        if how != 'next':
            continue
        n_next += 1
        ps = symexec(p, skip_first=False)
        cnt = ps.counts.get(name, 0)
        # plain re-assignments inside the body are not modelled as increments
        val = ps.env.get(name)
        delta_ok = False
        if val is None:
            delta_ok = (cnt == 0)
            inc = 0
        else:
            try:
                from ..symx import Norm, Unsupported
                norm = Norm()
                d = (norm.visit(val) - norm.visit(ast.Name(id=name, ctx=ast.Load()))).as_const()
            except Exception:
                d = None
            inc = d
            delta_ok = d is not None
        ok = delta_ok and (inc == 1 or (at_most and inc in (0, 1)))
        if not ok and bad is None:
            conds = ' and '.join(('%s' if pol else 'not(%s)') % U(e)[:50] for e, pol, _ in ps.conds[-4:])
            bad = 'advanced by %s on the path [%s]' % (inc, conds)
        # reads after the advance on this path
        for call, st in ps.events:
            pass
    ctx.check('R-ONCE/counter', f, key, bad is None and n_next > 0,
              '`%s` must advance by exactly 1 per iteration but is %s - later elements get the wrong position/row id'
              % (name, bad), loop, sample='%d iteration paths, each advances %s once' % (n_next, name))
    # every use of the counter inside the loop body sees the pre-increment value
    stale = None
    for p, how in paths:
        ps_env = {}
        # replay to find a read of the counter after an advance
        advanced = False
        for step in p[1:]:
            st = step.node.ast
            if st is None:
                continue
            if step.node.kind == 'stmt' and isinstance(st, ast.AugAssign) and isinstance(st.target, ast.Name) and st.target.id == name:
                advanced = True
                continue
            if advanced:
                parts = [st] if step.node.kind in ('stmt', 'return') else ([st.test] if isinstance(st, (ast.If, ast.While)) else [st.iter] if isinstance(st, ast.For) else [])
                for part in parts:
                    if any(isinstance(x, ast.Name) and x.id == name and isinstance(x.ctx, ast.Load) for x in ast.walk(part)):
                        stale = st
    ctx.check('R-ONCE/read-before-advance', f, key, stale is None,
              '`%s` is read after it was advanced in the same iteration (`%s`)' % (name, U(stale).split('\n')[0][:80] if stale is not None else ''),
              stale if stale is not None else loop, sample='all reads precede the advance')


def check_appends(ctx, sites=True):
    """exactly one mask entry per candidate row; one profile row per attribute"""
    repo = ctx.repo
    for path, qual, lst in ((FILTER_BASE, '_filter_candset_split', 'valid_rows'), (PROFILER, 'profile_table_for_join', 'profile_output')):
        if sites is not True and not any(s_ in path for s_ in ([sites] if isinstance(sites, str) else sites)):
            continue
        f = repo.fn(path, qual)
        view = view_of(f)
        if path == FILTER_BASE:
            from .common import mask_list_name
            lst = mask_list_name(f, lst)
        loops = [n for n in walk_own(f.node) if isinstance(n, ast.For) and any(
            isinstance(c, ast.Call) and isinstance(c.func, ast.Attribute) and c.func.attr == 'append'
            and isinstance(c.func.value, ast.Name) and c.func.value.id == lst for c in ast.walk(n))]
        if not loops:
            # built by a comprehension: one entry per element unless it filters or nests
            comps = [n for n in walk_own(f.node) if isinstance(n, ast.Assign) and isinstance(n.targets[0], ast.Name)
                     and n.targets[0].id == lst and isinstance(n.value, ast.ListComp)]
            if len(comps) == 1:
                lc = comps[0].value
                okc = len(lc.generators) == 1 and not lc.generators[0].ifs
                ctx.check('R-ONCE/append', f, lst, okc,
                          '`%s` must receive exactly one entry per element, but the comprehension %s'
                          % (lst, 'filters its elements' if len(lc.generators) == 1 else 'nests %d loops' % len(lc.generators)),
                          comps[0], sample='list comprehension over `%s`, no filter' % U(lc.generators[0].iter)[:40])
                continue
        if len(loops) != 1:
            raise AnalysisError('%s: expected one loop appending to %s' % (f.where, lst))
        bad = None
        n = 0
        for p, how in loop_body_paths(view, loops[0]):
            ps = symexec(p)
            cnt = len([1 for call, st in ps.events if isinstance(call.func, ast.Attribute) and call.func.attr == 'append'
                       and isinstance(st, ast.Expr) and isinstance(st.value.func, ast.Attribute)
                       and isinstance(st.value.func.value, ast.Name) and st.value.func.value.id == lst])
            n += 1
            if how == 'next' and cnt != 1 and bad is None:
                bad = '%d appends on the path [%s]' % (cnt, ' and '.join(('%s' if pol else 'not(%s)') % U(e)[:40] for e, pol, _ in ps.conds[-4:]))
            if how == 'exit' and bad is None and any(isinstance(s.node.ast, ast.Break) for s in p):
                bad = 'the loop is left early by break'
        ctx.check('R-ONCE/append', f, lst, bad is None,
                  '`%s` must receive exactly one entry per iteration, found %s' % (lst, bad), loops[0],
                  sample='%d paths, one %s.append each' % (n, lst))


def run(ctx, which=None, appends=False, caches=False, extrema=False, pairpos=False):
    ctx.group('R-ONCE')
    n = 0
    for path, qual, name, over, at_most in COUNTERS:
        if which is not None and name not in which and qual not in which:
            continue
        check_counter(ctx, path, qual, name, at_most, over)
        n += 1
    if appends:
        check_appends(ctx, appends)
    if caches:
        check_row_caches(ctx)
    if extrema:
        check_extrema(ctx)
    if pairpos:
        check_pair_position(ctx)


# --------------------------------------------------------------------------- per-row caches and extrema

def _invariant(e, variant_names):
    return not any(isinstance(x, ast.Name) and x.id in variant_names for x in ast.walk(e))


def check_row_caches(ctx):
    """Lists that are later indexed by row id (`size_cache[row]`, `cached_tokens[row]`) receive exactly one
    entry per row: whether a path of the row loop appends may depend on loop-invariant flags only."""
    repo = ctx.repo
    n = 0
    for cls, (fpath, ipath, icls) in sorted(FILTERS.items()):
        if icls is None:
            continue
        b = repo.fn(ipath, icls + '.build')
        view = view_of(b)
        loops = [x for x in walk_own(b.node) if isinstance(x, ast.For) and U(x.iter) in ('self.table', 'enumerate(self.table)')]
        if len(loops) != 1:
            raise AnalysisError('%s: row loop not found' % b.where)
        lp = loops[0]
        variant = set()
        for x in ast.walk(lp):
            if isinstance(x, ast.Name) and isinstance(x.ctx, ast.Store):
                variant.add(x.id)
        # per-row lists by role: attributes of the index object other than the postings, and locals that build() hands
        # back under a key other than 'empty_records' (those are read as <list>[row id] by the callers)
        returned = set()
        for x in walk_own(b.node):
            if isinstance(x, ast.Return) and isinstance(x.value, ast.Dict):
                for k, v in zip(x.value.keys, x.value.values):
                    if isinstance(k, ast.Constant) and k.value != 'empty_records' and isinstance(v, ast.Name):
                        returned.add(v.id)
        lists = set()
        for x in ast.walk(lp):
            if isinstance(x, ast.Call) and isinstance(x.func, ast.Attribute) and x.func.attr == 'append':
                recv = x.func.value
                r = U(recv)
                if isinstance(recv, ast.Attribute) and U(recv.value) == 'self' and recv.attr != 'index':
                    lists.add(r)
                elif isinstance(recv, ast.Name) and recv.id in returned:
                    lists.add(r)
        for lst in sorted(lists):
            n += 1
            plist = [(p, symexec(p)) for p, how in loop_body_paths(view, lp) if how == 'next']
            info = []
            for p, ps in plist:
                cnt = 0
                for step in p:
                    st = step.node.ast
                    if step.node.kind == 'stmt' and isinstance(st, ast.Expr) and isinstance(st.value, ast.Call) \
                            and isinstance(st.value.func, ast.Attribute) and st.value.func.attr == 'append' \
                            and U(st.value.func.value) == lst:
                        cnt += 1
                inv = {}
                for step in p:
                    if step.node.kind == 'test' and step.label in ('T', 'F') and _invariant(step.node.ast.test, variant):
                        inv[U(step.node.ast.test)] = (step.label == 'T')
                info.append((cnt, inv))
            bad = None
            for c1, i1 in info:
                if c1 > 1:
                    bad = 'appended %d times in one iteration' % c1
                for c2, i2 in info:
                    if c1 != c2 and not any(k in i2 and i2[k] != v for k, v in i1.items()):
                        bad = bad or 'some rows append to it and others do not although no loop-invariant flag differs'
            ctx.check('R-ONCE/row-cache', b, lst, bad is None,
                      '`%s` is indexed by row id elsewhere but %s: entries shift against the row ids' % (lst, bad), lp,
                      sample='%s: one entry per row on all %d iteration paths' % (lst, len(info)))
    ctx.floor('R-ONCE/row-cache', n, 3, 'row caches')
    _check_postings(ctx)


def _check_postings(ctx):
    """a posting list is created only when the key has none yet, and a cache that depends on a flag is filled when
    the flag is on"""
    from ..guards import Conds, Universe, to_formula, literals, show
    from .common import parse_expr
    repo = ctx.repo
    n = 0
    for cls, (fpath, ipath, icls) in sorted(FILTERS.items()):
        if icls is None:
            continue
        b = repo.fn(ipath, icls + '.build')
        conds = Conds(b.node, None)
        for st in walk_own(b.node):
            # self.index[K] = []  (an empty list / new container)
            if isinstance(st, ast.Assign) and isinstance(st.targets[0], ast.Subscript) and U(st.targets[0].value) == 'self.index' \
                    and isinstance(st.value, (ast.List, ast.Call)) and not getattr(st.value, 'elts', None):
                n += 1
                k = U(st.targets[0].slice)
                c = conds.of(st)
                absent = [to_formula(parse_expr(x)) for x in ('self.index.get(%s) is None' % k, '%s not in self.index' % k,
                                                              'not self.index.get(%s)' % k)]
                ok = any(Universe().implies(c, a) is None for a in absent)
                ctx.check('R-ONCE/posting', b, 'create posting list for %s' % k, ok,
                          '`%s` runs under `%s`: the posting list of a key that already has one is thrown away, earlier rows '
                          'are lost from the index' % (U(st)[:50], show(c)[:100]), st, sample='created only when absent')
        # caches filled under a flag: the flag must be on
        for x in walk_own(b.node):
            if isinstance(x, ast.Expr) and isinstance(x.value, ast.Call) and isinstance(x.value.func, ast.Attribute) \
                    and x.value.func.attr == 'append':
                recv = U(x.value.func.value)
                c = conds.of(x)
                for _, e, pol in literals(c):
                    t = U(e)
                    if ('cache' in t and 'empty' not in t and isinstance(e, (ast.Name, ast.Attribute))) and 'cache' in recv.replace('self.', '') \
                            or (t.startswith('cache_') and 'empty' not in t and 'empty' not in recv and ('cache' in recv or 'token' in recv)):
                        ctx.check('R-ONCE/posting', b, 'cache %s under %s' % (recv, t), pol,
                                  '`%s` is filled when `%s` is false: a caller that asks for the cache gets none' % (recv, t), x,
                                  sample='filled when the flag is on')
    # (setdefault / defaultdict forms create nothing explicitly: no floor)


def check_extrema(ctx):
    """min_length / max_length of an index are the extrema over *all* rows: each is updated exactly when the
    row's token count beats it, independently of the other."""
    from ..guards import Conds, Universe, to_formula
    from .common import parse_expr, expander
    repo = ctx.repo
    n = 0
    for icls, ipath in (('PositionIndex', P + 'index/position_index.py'), ('SizeIndex', P + 'index/size_index.py')):
        b = repo.fn(ipath, icls + '.build')
        view = view_of(b)
        conds = Conds(b.node, None)
        init = repo.fn(ipath, icls + '.__init__')
        inits = {}
        for x in walk_own(init.node):
            if isinstance(x, ast.Assign) and isinstance(x.targets[0], ast.Attribute) and U(x.targets[0].value) == 'self':
                inits[x.targets[0].attr] = U(x.value)
        for attr, op, want_init in (('min_length', '<', ('maxsize', 'sys.maxsize')), ('max_length', '>', ('0',))):
            n += 1
            stores = [x for x in walk_own(b.node) if isinstance(x, ast.Assign) and isinstance(x.targets[0], ast.Attribute)
                      and x.targets[0].attr == attr and U(x.targets[0].value) == 'self']
            ok = len(stores) == 1
            why = 'expected one update of self.%s in the row loop (found %d)' % (attr, len(stores))
            if ok:
                st = stores[0]
                v = st.value
                if isinstance(v, ast.Call) and isinstance(v.func, ast.Name) and v.func.id == ('min' if op == '<' else 'max'):
                    args = sorted(U(a) for a in v.args)
                    ok = 'self.%s' % attr in args and len(args) == 2
                    cnt = [a for a in args if a != 'self.%s' % attr][0] if ok else None
                    c = conds.of(st)
                    # unconditional: the path condition is a tautology
                    from ..guards import TRUE as _T
                    ok = ok and Universe(int_atoms=lambda a: True).equivalent(c, _T) is None
                    why = 'self.%s = %s is not an unconditional running %s' % (attr, U(v), 'minimum' if op == '<' else 'maximum')
                else:
                    cnt = U(v)
                    ref1 = to_formula(parse_expr('%s %s self.%s' % (cnt, op, attr)))
                    ref2 = to_formula(parse_expr('%s %s= self.%s' % (cnt, op, attr)))
                    c = conds.of(st)
                    uni = Universe(int_atoms=lambda a: True)
                    ok = uni.equivalent(c, ref1) is None or Universe(int_atoms=lambda a: True).equivalent(c, ref2) is None
                    why = 'self.%s is updated under `%s`, not exactly when `%s %s self.%s`: it is not the %s over all rows' \
                        % (attr, __import__('ssjlint.guards', fromlist=['show']).show(c)[:100], cnt, op, attr,
                           'minimum' if op == '<' else 'maximum')
                if ok:
                    cx = view.expand(ast.parse(cnt, mode='eval').body, st)
                    ok = 'len(' in U(cx) and 'tokenize(' in U(cx)
                    why = 'self.%s is updated with `%s`, not with the row\'s token count' % (attr, cnt)
            ctx.check('R-ONCE/extrema', b, attr, ok, why, stores[0] if stores else b.node,
                      sample='self.%s updated exactly when the token count beats it' % attr)
            ctx.check('R-ONCE/extrema', init, attr + ' initial', inits.get(attr) in want_init,
                      'self.%s starts at %s, expected %s' % (attr, inits.get(attr), want_init[0]), init.node,
                      sample='%s = %s' % (attr, inits.get(attr)))
    ctx.floor('R-ONCE/extrema', n, 4, 'index extrema')


def check_pair_position(ctx, f_override=None):
    """PositionFilter.filter_pair: the left position stored per prefix token must never exceed the token's
    first position (an over-estimate of the remaining tokens is safe, an under-estimate prunes qualifying
    pairs; with bags of q-grams a token repeats and a later store would overwrite the first position)."""
    repo = ctx.repo
    f = f_override or repo.fn(FILTERS['PositionFilter'][0], 'PositionFilter.filter_pair')
    view = view_of(f)
    loops = [x for x in f.node.body if isinstance(x, ast.For)]
    stores = []
    for lp in loops:
        for x in ast.walk(lp):
            if isinstance(x, ast.Assign) and isinstance(x.targets[0], ast.Subscript) and isinstance(x.value, ast.Name) \
                    and isinstance(x.targets[0].slice, ast.Name) and isinstance(lp.target, ast.Name) \
                    and x.targets[0].slice.id == lp.target.id:
                stores.append((lp, x))
    if not stores and not getattr(ctx, '_pp_retry', False):
        # the position dictionary built by a comprehension: analyse the equivalent loop
        from ..normalise import loopified
        f2 = loopified(repo, FILTERS['PositionFilter'][0], 'PositionFilter.filter_pair')
        if f2 is not None:
            ctx._pp_retry = True
            try:
                return check_pair_position(ctx, f2)
            finally:
                ctx._pp_retry = False
    if len(stores) != 1:
        raise AnalysisError('%s: left prefix position store not found' % f.where)
    lp, st = stores[0]
    pos = st.value.id
    d = U(st.targets[0].value)
    advanced = any(isinstance(x, ast.AugAssign) and isinstance(x.target, ast.Name) and x.target.id == pos for x in ast.walk(lp))
    ok = True
    why = ''
    if advanced:
        from ..guards import Conds, literals
        c = Conds(f.node, None).of(st)
        guard = [U(e) for _, e, pol in literals(c) if d in U(e)]
        ok = bool(guard)
        why = '`%s` is advanced per prefix token and stored unguarded: a repeated token (bag of q-grams) overwrites its ' \
              'first position with a later one, the overlap bound becomes too small' % pos
    if ok and not advanced:
        # a constant position: it must not exceed the first position of any token (0)
        init = [d for d in view.reaching(pos, st) if d.value is not None]
        ok = bool(init) and all(isinstance(d.value, ast.Constant) and isinstance(d.value.value, int) and d.value.value <= 0 for d in init)
        why = '`%s` is stored as the left position of every prefix token but starts at %s: a position larger than the real ' \
              'one under-estimates the tokens still to come and prunes qualifying pairs' % (pos, [U(d.value) for d in init])
    ctx.check('R-CAND/pair-position', f, 'left position', ok, why, st,
              sample='stored left position is %s' % ('constant 0 (safe over-estimate)' if not advanced else 'first occurrence'))
