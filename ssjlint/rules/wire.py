"""R-WIRE: the pieces of one worker are built from the same things.

ordering  the token ordering is generated from both tables, [left, right], with the attribute indices in
          the same order - a one-table ordering silently drops the other table's tokens;
same      the index constructor, the filter object and the probe side receive the same tokenizer,
          measure, threshold and the same token-ordering object;
rows      candidate ids come from an index over table T and select rows of that same T;
arrays    (table array, column list) pairs agree: the worker's column list is the projection list the
          array was built with, built from the attributes the worker is told about;
measure   inside `<m>_join_py` every measure name literal is the join's own measure."""
import ast

from .. import AnalysisError
from ..flow import view_of
from ..model import U
from ..side import expr_side
from .common import (P, FILTERS, JOINS, SET_SIM_JOIN, MEASURES, call_name, walk_own)

ORDERED_WORKERS = [
    (SET_SIM_JOIN, 'set_sim_join'),
    (P + 'join/edit_distance_join_py.py', '_edit_distance_join_split'),
    (P + 'filter/prefix_filter.py', '_filter_tables_split'),
    (P + 'filter/position_filter.py', '_filter_tables_split'),
    (P + 'filter/suffix_filter.py', '_filter_tables_split'),
]
INDEX_WORKERS = ORDERED_WORKERS[:4] + [
    (P + 'filter/size_filter.py', '_filter_tables_split'),
    (P + 'filter/overlap_filter.py', '_filter_tables_split'),
    (P + 'join/overlap_coefficient_join_py.py', '_overlap_coefficient_join_split'),
]


def check_ordering(ctx):
    repo = ctx.repo
    for path, qual in ORDERED_WORKERS:
        f = repo.fn(path, qual)
        view = view_of(f)
        lt, rt = f.params[0], f.params[1]
        calls = [c for c in repo.calls_in(f) if call_name(c) == 'gen_token_ordering_for_tables']
        if len(calls) != 1:
            raise AnalysisError('%s: expected one gen_token_ordering_for_tables call' % f.where)
        c = calls[0]
        st = view.stmt_of(c)
        r = repo.resolve_call(f, c)
        b = r[2] if r else {}
        tabs, attrs = b.get('table_list'), b.get('attr_list')
        tabs = view.expand(tabs, st) if tabs is not None else None
        attrs_x = view.expand(attrs, st) if attrs is not None else None
        if isinstance(attrs_x, ast.List):
            attrs = attrs_x
        ok = isinstance(tabs, ast.List) and [U(e) for e in tabs.elts] == [lt, rt]
        ctx.check('R-WIRE/ordering-tables', f, 'tables', ok,
                  'the token ordering is generated from %s, must be from [%s, %s]: tokens of a table that is left out get '
                  'no rank and are dropped from every prefix' % (U(tabs) if tabs is not None else '?', lt, rt), c,
                  sample='[%s, %s]' % (lt, rt))
        ok2 = isinstance(attrs, ast.List) and len(attrs.elts) == 2
        if ok2:
            a0, a1 = [view.expand(e, st) for e in attrs.elts]
            ok2 = expr_side(a0) == 'L' and expr_side(a1) == 'R' and 'index(' in U(a0) and 'index(' in U(a1)
        ctx.check('R-WIRE/ordering-attrs', f, 'attribute indices', ok2,
                  'attribute indices %s are not [left attribute index, right attribute index] in the order of the tables'
                  % (U(attrs) if attrs is not None else '?'), c, sample=U(attrs) if attrs is not None else '')
        # tokenizer/measure handed to the ordering are those of the index
        ctx.functions.add(f.where)


def _ctor_calls(repo, f, prefix):
    out = []
    for c in repo.calls_in(f):
        if isinstance(c.func, ast.Name):
            r = repo.lookup_name(f.module, c.func.id)
            if hasattr(r, 'methods') and r.module.relpath.startswith(prefix):
                out.append((c, r))
    return out


def check_same(ctx):
    repo = ctx.repo
    for path, qual in INDEX_WORKERS:
        f = repo.fn(path, qual)
        view = view_of(f)
        idx = _ctor_calls(repo, f, P + 'index/')
        if len(idx) != 1:
            raise AnalysisError('%s: expected one index constructor call' % f.where)
        ic, icls = idx[0]
        ist = view.stmt_of(ic)
        ib = repo.resolve_call(f, ic)[2]
        iargs = {p: U(view.expand(a, ist)) for p, a in ib.items()}
        lt = f.params[0]
        ctx.check('R-WIRE/index-table', f, 'index table', iargs.get('table') == lt,
                  'the index is built over `%s`, not over the left table `%s`' % (iargs.get('table'), lt), ic,
                  sample='%s(%s, ...)' % (icls.name, lt))
        ia = iargs.get('index_attr', '')
        ctx.check('R-WIRE/index-attr', f, 'index attribute', ia.startswith('l_columns.index(') and expr_side(ib['index_attr']) != 'R',
                  'the index attribute is `%s`, not the left join/filter attribute index' % ia, ic, sample=ia)
        # the probe side: tokenizer.tokenize(<right string>) with the same tokenizer; ordering with the same object
        toks = [c for c in repo.calls_in(f) if call_name(c) == 'tokenize']
        probe_tok = None
        for c in toks:
            recv = U(view.expand(c.func.value, view.stmt_of(c)))
            arg = view.expand(c.args[0], view.stmt_of(c)) if c.args else None
            if arg is not None and expr_side(arg) == 'R':
                probe_tok = recv
                ctx.check('R-WIRE/same-tokenizer', f, 'probe tokenizer', recv == iargs.get('tokenizer'),
                          'right rows are tokenized with `%s` but the index with `%s`' % (recv, iargs.get('tokenizer')), c,
                          sample=recv)
        if probe_tok is None:
            raise AnalysisError('%s: probe-side tokenize call not found' % f.where)
        if 'token_ordering' in iargs:
            ords = [c for c in repo.calls_in(f) if call_name(c) == 'order_using_token_ordering']
            for c in ords:
                o = U(view.expand(c.args[1], view.stmt_of(c))) if len(c.args) > 1 else '?'
                ctx.check('R-WIRE/same-ordering', f, 'probe ordering', o == iargs['token_ordering'],
                          'probe tokens are ordered with `%s` but the index was built with `%s`' % (o[:80], iargs['token_ordering'][:80]),
                          c, sample='same token_ordering object')
            gen = [c for c in repo.calls_in(f) if call_name(c) == 'gen_token_ordering_for_tables']
            if gen:
                gb = repo.resolve_call(f, gen[0])[2]
                gt = U(view.expand(gb['tokenizer'], view.stmt_of(gen[0])))
                ctx.check('R-WIRE/same-tokenizer', f, 'ordering tokenizer', gt == iargs.get('tokenizer'),
                          'the token ordering is generated with tokenizer `%s`, the index with `%s`' % (gt, iargs.get('tokenizer')),
                          gen[0], sample=gt)
        # filter object constructed in the worker (joins) receives the same measure/threshold/tokenizer
        for fc, fcls in _ctor_calls(repo, f, P + 'filter/'):
            fb = repo.resolve_call(f, fc)[2]
            fst = view.stmt_of(fc)
            for prm in ('tokenizer', 'sim_measure_type', 'threshold'):
                if prm in fb and prm in iargs and not fcls.name.startswith('Overlap'):
                    got = U(view.expand(fb[prm], fst))
                    ctx.check('R-WIRE/same-params', f, '%s.%s' % (fcls.name, prm), got == iargs[prm],
                              '%s gets %s=`%s` but the index was built with `%s`: index and probe prefixes/bounds disagree'
                              % (fcls.name, prm, got, iargs[prm]), fc, sample='%s = %s' % (prm, got))
        # filter workers: every attribute read of the filter object used for index and probe is the same object
        if qual == '_filter_tables_split':
            recv = f.params[8]
            for prm in ('tokenizer', 'sim_measure_type', 'threshold'):
                if prm in iargs:
                    ctx.check('R-WIRE/same-params', f, 'index %s' % prm, iargs[prm] == '%s.%s' % (recv, prm),
                              'the index gets %s=`%s`, not the filter\'s own %s.%s' % (prm, iargs[prm], recv, prm), ic,
                              sample='%s.%s' % (recv, prm))


def check_filter_rows(ctx):
    """filter workers: emitted left rows are rows of the indexed table selected by the candidate id"""
    repo = ctx.repo
    from .verify import _sinks, _innermost_loop, _index_tables
    for cls in ('SizeFilter', 'PrefixFilter', 'PositionFilter', 'OverlapFilter'):
        f = repo.fn(FILTERS[cls][0], '_filter_tables_split')
        view = view_of(f)
        for sink in _sinks(f):
            lp = _innermost_loop(f, sink)
            if not isinstance(lp, ast.For):
                continue
            it = view.expand(lp.iter, lp)
            tables = sorted(set(_index_tables(repo, f, it)))
            var = [n.id for n in ast.walk(lp.target) if isinstance(n, ast.Name)][0]
            rows = []
            for n in ast.walk(lp):
                # every `<table parameter>[<candidate variable>]`: a row selected by the candidate id
                if isinstance(n, ast.Subscript) and isinstance(n.slice, ast.Name) and n.slice.id == var \
                        and isinstance(n.value, ast.Name) and n.value.id in f.params:
                    rows.append(U(n))
            ok = len(tables) == 1 and rows and all(r == '%s[%s]' % (tables[0], var) for r in rows)
            ctx.check('R-WIRE/candidate-row', f, 'loop over %s' % U(lp.iter)[:40], ok,
                      'ids delivered by the index over %s select rows %s' % (tables, sorted(set(rows))), sink,
                      sample='index over %s, rows %s' % (tables, sorted(set(rows))))


def _enclosing_comprehension(f, call):
    for n in ast.walk(f.node):
        if isinstance(n, (ast.GeneratorExp, ast.ListComp)) and any(x is call for x in ast.walk(n.elt)):
            return n.generators[0]
    return None


def check_arrays(ctx):
    repo = ctx.repo
    n = 0
    for g in repo.all_funcs():
        if g.module.relpath.endswith('disk_edit_distance_join.py'):
            continue
        view = None
        for c in repo.calls_in(g):
            r = repo.resolve_call(g, c)
            if r is None:
                continue
            callee, kind, b = r
            if not (set(['l_columns', 'r_columns']) <= set(callee.params)) or callee.name.startswith('validate_'):
                continue
            view = view or view_of(g)
            st = view.stmt_of(c)
            jobvar = ()
            tag = '/parallel' if isinstance(c.func, ast.Call) else ''
            for side, tabp, colp in (('l', callee.params[0], 'l_columns'), ('r', callee.params[1], 'r_columns')):
                n += 1
                arr = view.expand(b[tabp], st)
                cols = view.expand(b[colp], st)
                # peel split_table(..)[j]  /  the element variable of `for [j,] x in [enumerate(]split_table(..)[)]`
                base = arr
                if isinstance(base, ast.Name):
                    gen = _enclosing_comprehension(g, c)
                    if gen is not None:
                        names = [x.id for x in ast.walk(gen.target) if isinstance(x, ast.Name)]
                        if base.id in names:
                            src = view.expand(gen.iter, st)
                            if isinstance(src, ast.Call) and call_name(src) == 'enumerate' and src.args:
                                src = src.args[0]
                            if isinstance(src, ast.Call) and call_name(src) == 'split_table' and src.args:
                                base = src.args[0]
                if isinstance(base, ast.Subscript) and isinstance(base.value, ast.Call) and call_name(base.value) == 'split_table':
                    base = base.value.args[0]
                ok = isinstance(base, ast.Call) and call_name(base) == 'convert_dataframe_to_array' and len(base.args) >= 3
                why = 'the %s table array is `%s`, not convert_dataframe_to_array(..)' % (side, U(arr)[:80])
                if ok:
                    tab, proj, jattr = base.args[0], base.args[1], base.args[2]
                    ok = U(proj) == U(cols)
                    why = 'the %s array is projected on `%s` but the worker is told its columns are `%s`: every column ' \
                          'index is computed against the wrong layout' % (side, U(proj)[:80], U(cols)[:80])
                    if ok:
                        want_tab = 'ltable' if side == 'l' else 'rtable'
                        ok = U(tab) == want_tab
                        why = 'the %s array is built from `%s`' % (side, U(tab))
                    if ok:
                        # projection list = get_attrs_to_project(<out attrs passed to the worker>, key, join attr passed)
                        ok = isinstance(proj, ast.Call) and call_name(proj) == 'get_attrs_to_project' and len(proj.args) == 3
                        why = 'the projection list is `%s`' % U(proj)[:80]
                    if ok:
                        oa, ka, ja = [U(x) for x in proj.args]
                        attr_param = [p for p in callee.params if p.startswith(side + '_') and p.endswith('_attr') and 'key' not in p][0]
                        w_oa = U(view.expand(b['%s_out_attrs' % side], st))
                        w_ka = U(view.expand(b['%s_key_attr' % side], st))
                        w_ja = U(view.expand(b[attr_param], st))
                        ok = (oa, ka, ja) == (w_oa, w_ka, w_ja) and U(jattr) == w_ja
                        why = 'the %s projection is built from (%s, %s, %s) [dropna on %s] but the worker is told (%s, %s, %s)' \
                              % (side, oa[:40], ka, ja, U(jattr), w_oa[:40], w_ka, w_ja)
                ctx.check('R-WIRE/arrays', g, '%s %s side%s' % (callee.qual, side, tag), ok, why, c,
                          sample='%s array and column list built from the same projection' % side)
    ctx.floor('R-WIRE/arrays', n, 40, 'worker call sides')


def check_measure(ctx):
    repo = ctx.repo
    names = set(MEASURES) | {'OVERLAP_COEFFICIENT'}
    for name, (path, qual, measure, worker) in sorted(JOINS.items()):
        funcs = [repo.fn(path, qual)]
        if worker is not None and worker[0] == path:
            funcs.append(repo.fn(*worker))
        n = 0
        for f in funcs:
            for c in walk_own(f.node):
                if isinstance(c, ast.Constant) and isinstance(c.value, str) and c.value in names:
                    n += 1
                    expect = [measure]
                    if measure == 'OVERLAP_COEFFICIENT':
                        expect.append('OVERLAP')     # the inner OverlapFilter(tokenizer, 1) machinery
                    ctx.check('R-WIRE/measure', f, 'literal %d' % n, c.value in expect,
                              "measure literal '%s' inside the %s join (its measure is %s)" % (c.value, name, measure), c,
                              sample="'%s'" % c.value)
        if name != 'overlap' and n == 0:
            raise AnalysisError('%s: no measure literal found' % path)


def check_ctor_stores(ctx):
    """a filter object remembers exactly what it was given: `self.<p> = <p>` for threshold / overlap_size / comp_op /
    tokenizer / allow_empty / allow_missing (the measure name may be upper-cased). A coerced value (`int(..)`, a
    default substituted, another parameter) makes every later decision use something the caller did not ask for."""
    repo = ctx.repo
    from .common import FILTERS, FILTER_BASE
    n = 0
    inits = [repo.fn(path, cls + '.__init__') for cls, (path, _, _) in sorted(FILTERS.items())] + [repo.fn(FILTER_BASE, 'Filter.__init__')]
    for f in inits:
        for st in walk_own(f.node):
            if not (isinstance(st, ast.Assign) and len(st.targets) == 1 and isinstance(st.targets[0], ast.Attribute)
                    and U(st.targets[0].value) == 'self'):
                continue
            attr = st.targets[0].attr
            used = [x.id for x in ast.walk(st.value) if isinstance(x, ast.Name) and x.id in f.params and x.id != 'self']
            if not used:
                continue
            n += 1
            v = st.value
            ok = isinstance(v, ast.Name) and v.id == attr
            if attr == 'sim_measure_type':
                ok = ok or (isinstance(v, ast.Call) and isinstance(v.func, ast.Attribute) and v.func.attr == 'upper'
                            and U(v.func.value) == attr and not v.args)
            if not ok and isinstance(v, ast.Name):
                # a local computed from the parameter: only the upper-cased measure name is accepted
                vx = view_of(f).expand(v, st)
                ok = attr == 'sim_measure_type' and U(vx) in ('sim_measure_type.upper()', 'sim_measure_type')
            ctx.check('R-WIRE/ctor-store', f, 'self.%s' % attr, ok,
                      'the constructor stores `%s` as self.%s: the filter must keep the value it was given' % (U(v)[:50], attr), st,
                      sample='self.%s = %s' % (attr, U(v)[:40]))
    ctx.floor('R-WIRE/ctor-store', n, 18, 'constructor stores')


def run(ctx, ordering=True, same=True, rows=True, arrays=True, measure=True):
    ctx.group('R-WIRE')
    check_ctor_stores(ctx)
    if ordering:
        check_ordering(ctx)
    if same:
        check_same(ctx)
    if rows:
        check_filter_rows(ctx)
    if arrays:
        check_arrays(ctx)
    if measure:
        check_measure(ctx)
