"""R-DTYPE, R-CONV: dtype gates over a finite kind domain; converter discipline (C15, C16).

R-DTYPE  validate_attr_type: the dtype kinds that do not reach `raise` include object and the pandas
         string dtype and exclude int and float. series_to_str: object/str columns reach only the
         "unchanged" returns, int the astype(str) branch, float the NaN-preserving mapping; no kind
         reaches `raise TypeError` or a predicate that itself raises for that kind.
R-CONV   argument checks (incl. inplace & return_col rejected) as a decision table; return kinds per
         mode; every str() of an element is control dependent on `not isnull`; str(int(v)) only on the
         all-integral path; lost update: an in-place request must not be implemented by mutating a
         temporary taken out of the frame, nor by Series.update with values of another kind (pandas
         refuses to change a dtype in place)."""
import ast

from .. import AnalysisError
from ..dtypeai import KINDS, outcomes as dt_outcomes
from ..flow import view_of, untag
from ..guards import Conds, Universe, to_formula, show
from ..model import U
from .common import CONVERTER, VALIDATION, call_name, walk_own, parse_expr
from . import dt as dtmod


def _dtype_names(f):
    names = set(p for p in f.params if p.endswith('_type') or p == 'dtype')
    for n in walk_own(f.node):
        if isinstance(n, ast.Assign) and isinstance(n.targets[0], ast.Name) and isinstance(n.value, ast.Attribute) and n.value.attr == 'dtype':
            names.add(n.targets[0].id)
    return names


def check_gate(ctx):
    repo = ctx.repo
    f = repo.fn(VALIDATION, 'validate_attr_type')
    names = _dtype_names(f)
    if not names:
        raise AnalysisError('%s: dtype parameter not found' % f.where)
    for kind, must_pass in (('object', True), ('str', True), ('int', False), ('int32', False), ('float', False), ('float32', False), ('bool', False)):
        outs = dt_outcomes(f.node, kind, names)
        kinds = sorted(set(o[0] + ':' + o[1] for o in outs))
        raises = [o for o in outs if o[0] in ('raise', 'pred-raises')]
        rets = [o for o in outs if o[0] == 'return']
        if must_pass:
            ok = not raises and bool(rets)
            msg = 'a %s column (a string column) is rejected: %s' % (kind, kinds)
        else:
            ok = bool(raises) and not rets and all(o[0] == 'raise' and o[1] == 'AssertionError' for o in raises)
            msg = 'a %s column is not rejected with AssertionError: %s' % (kind, kinds)
        ctx.check('R-DTYPE/gate', f, kind, ok, 'validate_attr_type: ' + msg, (raises or rets or [(0, 0, f.node)])[0][2],
                  sample='%s -> %s' % (kind, kinds))


def check_series_dispatch(ctx):
    repo = ctx.repo
    f = repo.fn(CONVERTER, 'series_to_str')
    names = _dtype_names(f)
    view = view_of(f)

    def ret_text(o):
        """what a return delivers: its expression with locals expanded, plus every definition reaching a returned name"""
        st = o[2]
        if not isinstance(st, ast.Return) or st.value is None:
            return o[1]
        parts = [U(untag(view.expand(st.value, st)))]
        if isinstance(st.value, ast.Name):
            for d in view.reaching(st.value.id, st):
                if d.value is not None and d.node is not None:
                    parts.append(U(untag(view.expand(d.value, d.node))))
        return ' | '.join(sorted(set(parts)))
    for kind in ('object', 'str', 'int', 'int32', 'float', 'float32'):
        outs = dt_outcomes(f.node, kind, names)
        # argument-check raises (AssertionError) are not dtype outcomes
        outs = [o for o in outs if not (o[0] == 'raise' and o[1] == 'AssertionError')]
        bad = [o for o in outs if o[0] in ('raise', 'pred-raises')]
        rets = sorted(set(ret_text(o) for o in outs if o[0] == 'return'))
        ok = not bad
        msg = ''
        if bad:
            msg = 'a %s column ends in %s `%s`' % (kind, 'an exception raised by the dtype test' if bad[0][0] == 'pred-raises' else 'raise', bad[0][1][:60])
        elif kind in ('object', 'str'):
            conv = [r for r in rets if 'astype(str)' in r or '.apply(' in r]
            ok = not conv
            msg = 'a %s (string) column is converted (`%s`) instead of being returned unchanged' % (kind, conv[:1])
        elif kind in ('int', 'int32'):
            ok = any('astype(str)' in r for r in rets)
            msg = 'an int column never reaches the astype(str) conversion: returns %s' % rets
        else:
            ok = any('.apply(' in r and 'isnull' in r for r in rets)
            msg = 'a float column never reaches the NaN-preserving conversion: returns %s' % rets
        ctx.check('R-DTYPE/dispatch', f, kind, ok, 'series_to_str: ' + msg, (bad or [(0, 0, f.node)])[0][2],
                  sample='%s -> %s' % (kind, rets))


DF_HEAD = '''
def ref(dataframe, col_name, inplace=False, return_col=False):
    if not isinstance(dataframe, pd.DataFrame):
        raise AssertionError()
    if col_name not in dataframe.columns:
        raise AssertionError()
    if not isinstance(inplace, bool):
        raise AssertionError()
    if not isinstance(return_col, bool):
        raise AssertionError()
    if inplace and return_col:
        raise AssertionError()
    return ANY
'''
SER_HEAD = '''
def ref(series, inplace=False):
    if not isinstance(series, pd.Series):
        raise AssertionError()
    if not isinstance(inplace, bool):
        raise AssertionError()
    return ANY
'''


def check_heads(ctx):
    repo = ctx.repo
    for qual, src in (('dataframe_column_to_str', DF_HEAD), ('series_to_str', SER_HEAD)):
        f = repo.fn(CONVERTER, qual)
        # only the AssertionError head is compared; the TypeError tail belongs to R-DTYPE
        _compare_head(ctx, f, src)
        # the checks come first: every raise AssertionError dominates... (no work before them)
        view = view_of(f)
        first_work = None
        for st in f.node.body:
            if isinstance(st, ast.If) and all(isinstance(x, ast.Raise) for x in st.body) and not st.orelse:
                continue
            if isinstance(st, ast.Expr) and isinstance(st.value, ast.Call) and _is_check_helper(repo, f, st.value):
                continue
            if isinstance(st, ast.Expr) and isinstance(st.value, ast.Constant):
                continue
            first_work = st
            break
        late = [n for n in walk_own(f.node) if isinstance(n, ast.Raise) and isinstance(n.exc, ast.Call)
                and U(n.exc.func) == 'AssertionError' and first_work is not None and n.lineno > first_work.lineno]
        ctx.check('R-CONV/checks-first', f, 'argument checks', not late,
                  'an argument check runs after work has started (line %s)' % (late[0].lineno if late else ''),
                  late[0] if late else f.node, sample='all AssertionError checks precede the first statement that does work')


def _is_check_helper(repo, f, call):
    """a call of a repository function that does nothing but test its arguments and raise"""
    r = repo.resolve_call(f, call)
    if r is None:
        return False
    callee = r[0]
    for st in callee.node.body:
        if isinstance(st, ast.Expr) and isinstance(st.value, ast.Constant):
            continue
        if isinstance(st, ast.If) and not st.orelse and all(isinstance(x, ast.Raise) for x in st.body):
            continue
        return False
    return True


def _compare_head(ctx, f, src):
    """like dt.compare_tables, restricted to assignments where the reference raises or the implementation raises
    AssertionError"""
    ref = dtmod.ref_func(src, f)
    delegating = any(isinstance(st, ast.Expr) and isinstance(st.value, ast.Call) and _is_check_helper(ctx.repo, f, st.value)
                     for st in f.node.body)
    impl_rows = [r for r in dtmod._table(f, 'paths' if delegating else 'conds') if r[1] == 'raise' and r[2] == 'AssertionError']
    # only the function's own checks and those of its check helpers (what a converter it calls later rejects is
    # that converter's head)
    impl_rows = [r for r in impl_rows if isinstance(r[3], ast.Raise)
                 or (isinstance(r[3], ast.Expr) and isinstance(r[3].value, ast.Call) and _is_check_helper(ctx.repo, f, r[3].value))]
    uniq = {}
    for r in impl_rows:
        uniq.setdefault(repr(r[0]), r)
    impl_rows = list(uniq.values())
    ref_rows = [r for r in dtmod._table(ref, 'conds') if r[1] == 'raise']
    from ..guards import f_or
    fi = f_or(*[r[0] for r in impl_rows]) if impl_rows else ('false',)
    fr = f_or(*[r[0] for r in ref_rows])
    w = Universe().equivalent(fi, fr)
    from ..guards import show_asg
    ctx.check('R-CONV/arg-checks', f, 'rejecting conditions', w is None,
              'the set of rejected argument combinations differs from the documented one when %s' % (show_asg(w) if w else ''),
              f.node, sample='%d AssertionError guards equivalent to the %d documented ones' % (len(impl_rows), len(ref_rows)))


def check_return_kinds(ctx):
    repo = ctx.repo
    f = repo.fn(CONVERTER, 'dataframe_column_to_str')
    view = view_of(f)
    conds = Conds(f.node, None)
    rets = [n for n in walk_own(f.node) if isinstance(n, ast.Return)]
    if len(rets) < 3:
        raise AnalysisError('%s: expected returns for the three modes' % f.where)
    seen = {'inplace': 0, 'return_col': 0, 'copy': 0}
    for r in rets:
        c = conds.of(r)
        uni = Universe()
        mode = None
        if uni.implies(c, to_formula(parse_expr('inplace'))) is None:
            mode = 'inplace'
        elif Universe().implies(c, to_formula(parse_expr('not inplace and return_col'))) is None:
            mode = 'return_col'
        elif Universe().implies(c, to_formula(parse_expr('not inplace and not return_col'))) is None:
            mode = 'copy'
        if mode is None:
            ctx.check('R-CONV/return-kind', f, 'line-independent: %s' % U(r)[:40], False,
                      '`%s` runs under `%s`, which is not one of the three modes' % (U(r)[:60], show(c)[:80]), r)
            continue
        seen[mode] += 1
        v = r.value
        if mode == 'inplace':
            ok = isinstance(v, ast.Constant) and v.value is True
            want = 'True'
        elif mode == 'return_col':
            ok = isinstance(v, ast.Call) and call_name(v) == 'series_to_str' and v.args \
                and U(view.expand(v.args[0], r)).startswith(f.params[0] + '[')
            want = 'the converted column series_to_str(dataframe[col_name], ...)'
        else:
            ok = False
            if isinstance(v, ast.Name):
                ds = view.reaching(v.id, r)
                ok = len(ds) == 1 and ds[0].value is not None and U(ds[0].value) == '%s.copy()' % f.params[0]
            want = 'a converted copy of the frame'
        ctx.check('R-CONV/return-kind', f, '%s #%d' % (mode, seen[mode]), ok,
                  'in %s mode the function returns `%s`, expected %s' % (mode, U(v)[:60] if v is not None else 'None', want), r,
                  sample='%s -> %s' % (mode, U(v)[:50] if v is not None else 'None'))
    for m, k in seen.items():
        ctx.check('R-CONV/return-kind', f, 'mode %s covered' % m, k >= 1, 'no return for mode %s' % m, f.node, nontrivial=False)


def _isnull_guard(body, v):
    """body == `<null value> if isnull(v) else <conv>` (or the notnull mirror) -> (null arm, value arm) or None"""
    if not isinstance(body, ast.IfExp):
        return None
    t = body.test
    neg = False
    if isinstance(t, ast.UnaryOp) and isinstance(t.op, ast.Not):
        t, neg = t.operand, True
    if not (isinstance(t, ast.Call) and U(t.func) in ('pd.isnull', 'pd.isna', 'np.isnan', 'pd.notnull', 'pd.notna')
            and len(t.args) == 1 and U(t.args[0]) == v):
        return None
    if U(t.func) in ('pd.notnull', 'pd.notna'):
        neg = not neg
    return (body.orelse, body.body) if neg else (body.body, body.orelse)


def _has_str(e):
    return any(isinstance(c, ast.Call) and isinstance(c.func, ast.Name) and c.func.id == 'str' for c in ast.walk(e))


def check_value_mapping(ctx):
    """every str() of an element is control dependent on `not isnull(element)`"""
    repo = ctx.repo
    f = repo.fn(CONVERTER, 'series_to_str')
    view = view_of(f)
    conds = Conds(f.node, None)
    maps = [(n, n.body, n.args.args[0].arg) for n in ast.walk(f.node) if isinstance(n, ast.Lambda) and len(n.args.args) == 1]
    for c in ast.walk(f.node):
        if isinstance(c, (ast.ListComp, ast.GeneratorExp)) and len(c.generators) == 1 and isinstance(c.generators[0].target, ast.Name):
            maps.append((c, c.elt, c.generators[0].target.id))
    # formatter names: locals bound only to `str` or to lambdas
    formatters = {}
    for n in walk_own(f.node):
        if isinstance(n, ast.Assign) and isinstance(n.targets[0], ast.Name):
            v = n.value
            alts = [v.body, v.orelse] if isinstance(v, ast.IfExp) else [v]
            if all(isinstance(a, ast.Lambda) or (isinstance(a, ast.Name) and a.id == 'str') for a in alts):
                formatters.setdefault(n.targets[0].id, []).extend(alts)
    n = 0
    guarded_calls = set()
    unguarded = []
    mapping_nodes = set()
    for node, body, v in maps:
        arms = _isnull_guard(body, v)
        uses_fmt = [c for c in ast.walk(body) if isinstance(c, ast.Call) and isinstance(c.func, ast.Name) and c.func.id in formatters]
        if not _has_str(body) and not uses_fmt:
            continue
        if arms is not None:
            n += 1
            null_arm, val_arm = arms
            ok = U(null_arm) in ('np.NaN', 'np.nan', 'None', "float('nan')", v) and not _has_str(null_arm) \
                and not any(isinstance(c, ast.Call) and isinstance(c.func, ast.Name) and c.func.id in formatters for c in ast.walk(null_arm)) \
                and isinstance(val_arm, ast.Call) and isinstance(val_arm.func, ast.Name) \
                and (val_arm.func.id == 'str' or val_arm.func.id in formatters)
            mapping_nodes.add(id(node))
            for c in uses_fmt:
                if any(x is c for x in ast.walk(val_arm)):
                    guarded_calls.add(id(c))
            has_int = any(isinstance(c, ast.Call) and isinstance(c.func, ast.Name) and c.func.id == 'int' for c in ast.walk(body))
            ctx.check('R-CONV/nan-preserving', f, 'str(int(v)) mapping' if has_int else 'str(v) mapping', ok,
                      'the element mapping `%s` does not keep a missing value missing (NaN in the isnull arm, str(..) in the '
                      'other)' % U(node)[:80], node, sample=U(node)[:90])
            if has_int:
                _check_integral(ctx, f, view, conds, node)
        else:
            unguarded.append((node, body, v))
    # an unguarded str-lambda is fine only as a formatter that is called exclusively under a guard
    for node, body, v in unguarded:
        name = None
        for k, alts in formatters.items():
            if any(a is node for a in alts):
                name = k
        calls = [c for c in ast.walk(f.node) if isinstance(c, ast.Call) and isinstance(c.func, ast.Name) and c.func.id == name] if name else []
        others = [x for x in ast.walk(f.node) if isinstance(x, ast.Name) and x.id == name and isinstance(x.ctx, ast.Load)
                  and not any(c.func is x for c in calls)] if name else []
        ok = name is not None and calls and all(id(c) in guarded_calls for c in calls) and not others
        n += 1
        has_int = any(isinstance(c, ast.Call) and isinstance(c.func, ast.Name) and c.func.id == 'int' for c in ast.walk(body))
        ctx.check('R-CONV/nan-preserving', f, 'str(int(v)) mapping' if has_int else 'str(v) mapping', ok,
                  'the element mapping `%s` converts without testing for a missing value: NaN becomes the string \'nan\''
                  % U(node)[:80], node, sample='%s used only under an isnull guard' % U(node)[:60])
        if has_int:
            _check_integral(ctx, f, view, conds, node)
    ctx.floor('R-CONV/nan-preserving', n, 2, 'element mappings')
    return mapping_nodes


def _check_integral(ctx, f, view, conds, node):
    st = view.stmt_of(node)
    c = conds.of(st)
    want = None
    from ..guards import literals
    for _, e, pol in literals(c):
        ex_ = untag(view.expand(e, st))
        if isinstance(e, ast.Compare) and 'is_integer' in U(ex_):
            want = (e, pol)
        elif isinstance(ex_, ast.Call) and isinstance(ex_.func, ast.Name) and ex_.func.id == 'all' and 'is_integer' in U(ex_):
            want = (ast.Compare(left=e, ops=[ast.Eq()], comparators=[ast.Constant(True)]), pol)   # all(v.is_integer() ..)
    okc = want is not None and want[1] and isinstance(want[0].ops[0], ast.Eq)
    ctx.check('R-CONV/integral-only', f, 'str(int(v))', okc,
              'str(int(v)) is used under `%s`: it may only be used when every present value is integral' % show(c)[:100], node,
              sample='under int_values == len(col_non_nan_values)')


def check_index_preserving(ctx):
    """The converted column keeps the input's row labels: it is produced by an element-wise method of the input
    Series (astype / apply / map / copy), or rebuilt with index=<input>.index."""
    repo = ctx.repo
    f = repo.fn(CONVERTER, 'series_to_str')
    sp = f.params[0]
    n = 0
    for c in repo.calls_in(f):
        if U(c.func) in ('pd.Series', 'pandas.Series', 'Series'):
            n += 1
            kws = {k.arg: k.value for k in c.keywords}
            idx = kws.get('index', c.args[1] if len(c.args) > 1 else None)
            ok = idx is not None and U(idx) == '%s.index' % sp
            ctx.check('R-CONV/index-preserving', f, 'Series(..) #%d' % n, ok,
                      'the converted column is rebuilt as `%s` without index=%s.index: values lose their row labels and land on '
                      'the wrong rows (or become missing) when the frame is not 0..n-1 indexed' % (U(c)[:70], sp), c,
                      sample='index=%s.index' % sp)
    ctx.check('R-CONV/index-preserving', f, 'constructor scan', True, nontrivial=False,
              sample='%d pd.Series(..) constructions' % n)


def check_lost_update(ctx):
    repo = ctx.repo
    n = 0
    for qual in ('dataframe_column_to_str', 'series_to_str'):
        f = repo.fn(CONVERTER, qual)
        view = view_of(f)
        conds = Conds(f.node, None)
        for c in repo.calls_in(f):
            # (a) converting a temporary taken out of the frame in place
            if call_name(c) == 'series_to_str' and c.args and isinstance(c.args[0], ast.Subscript):
                n += 1
                flag = c.args[1] if len(c.args) > 1 else None
                for k in c.keywords:
                    if k.arg == 'inplace':
                        flag = k.value
                st = view.stmt_of(c)
                may_inplace = flag is not None and not (isinstance(flag, ast.Constant) and flag.value is False)
                if may_inplace and isinstance(flag, ast.Name):
                    # the flag may be provably false on this path
                    w = Universe().implies(conds.of(st), to_formula(parse_expr('not %s' % flag.id)))
                    may_inplace = w is not None
                ctx.check('R-CONV/lost-update', f, 'series_to_str(%s, %s)' % (U(c.args[0])[:30], U(flag) if flag is not None else ''),
                          not may_inplace,
                          '`%s` converts, in place, a column object taken out of the frame: the frame itself is not changed '
                          '(copy-on-write) - assign the converted column through the frame' % U(c)[:80], c,
                          sample='%s (not in place)' % U(c)[:60])
            # (b) Series.update with values of another kind
            if call_name(c) == 'update' and isinstance(c.func, ast.Attribute) and c.args:
                n += 1
                st = view.stmt_of(c)
                src = view.expand(c.args[0], st)
                t = U(src)
                if isinstance(c.args[0], ast.Name):
                    t = ' | '.join([t] + [U(d.value) for d in view.reaching(c.args[0].id, st) if d.value is not None])
                kind_change = 'astype(str)' in t or ('apply(' in t and ('str(' in t or 'isnull' in t or 'notnull' in t))
                branch = 'int-branch' if 'astype(str)' in t else 'float-branch' if 'apply(' in t else 'other'
                ctx.check('R-CONV/update-kind', f, 'update#%s' % branch, not kind_change,
                          '`%s` writes string values into a numeric Series in place: pandas cannot change a dtype in place '
                          '(TypeError: Invalid value ... for dtype)' % U(c)[:60], c, sample=U(c)[:60])
    ctx.floor('R-CONV/lost-update', n, 3, 'conversion call sites')


def check_series_returns(ctx):
    """series_to_str: a constant boolean is returned only as True and only in inplace mode; with inplace=False the
    function returns a Series, never a flag"""
    repo = ctx.repo
    f = repo.fn(CONVERTER, 'series_to_str')
    conds = Conds(f.node, None)
    n_true = 0
    for r in [n for n in walk_own(f.node) if isinstance(n, ast.Return)]:
        c = conds.of(r)
        v = r.value
        is_flag = isinstance(v, ast.Constant) and isinstance(v.value, bool)
        under_inplace = Universe().implies(c, to_formula(parse_expr('inplace'))) is None
        under_copy = Universe().implies(c, to_formula(parse_expr('not inplace'))) is None
        if is_flag:
            ok = v.value is True and under_inplace
            n_true += 1 if ok else 0
            ctx.check('R-CONV/series-return', f, 'flag @ %s' % show(c)[:60], ok,
                      '`return %s` under `%s`: the only flag the function returns is True, and only with inplace=True'
                      % (v.value, show(c)[:100]), r, sample='return True under inplace')
        elif under_copy:
            ctx.check('R-CONV/series-return', f, 'copy @ %s' % show(c)[:60], v is not None,
                      'with inplace=False nothing is returned under `%s`' % show(c)[:100], r, sample='returns %s' % U(v)[:40] if v is not None else '')
    ctx.floor('R-CONV/series-return', n_true, 1, '`return True` sites of the inplace mode')
    # a string (object) column converted in place: nothing to do, True on every path - also when it is empty
    view = view_of(f)
    names = sorted(_dtype_names(f))
    if names:
        from ..guards import f_and
        obj_inplace = to_formula(parse_expr('%s == object and inplace' % names[0]))
        arms = []
        for r in [n for n in walk_own(f.node) if isinstance(n, ast.Return)]:
            def split(c_, v_):
                if isinstance(v_, ast.IfExp):      # `return True if inplace else series.copy()`: one arm per outcome
                    t_ = to_formula(v_.test)
                    from ..guards import f_not
                    split(f_and(c_, t_), v_.body)
                    split(f_and(c_, f_not(t_)), v_.orelse)
                else:
                    arms.append((r, c_, v_))
            split(conds.of(r), r.value)
        for r, c, v in arms:
            if isinstance(v, ast.Constant) and v.value is True:
                continue
            sat = Universe(int_atoms=lambda a: True).satisfiable(f_and(c, obj_inplace))
            ctx.check('R-CONV/series-return', f, 'object+inplace @ %s' % U(v)[:30], not sat,
                      'an object (string) column with inplace=True can reach `return %s` (under `%s`): the in-place call must '
                      'return True' % (U(v)[:40], show(c)[:100]), r, sample='not reachable for an object column with inplace=True')
    # returning the column unconverted (astype(object)) is allowed only when it holds no present value
    n_sc = 0
    for r in [n for n in walk_own(f.node) if isinstance(n, ast.Return) and n.value is not None]:
        vx = untag(view.expand(r.value, r))
        if not (isinstance(vx, ast.Call) and isinstance(vx.func, ast.Attribute) and vx.func.attr == 'astype' and vx.args
                and U(vx.args[0]) == 'object' and U(vx.func.value) == f.params[0]):
            continue
        n_sc += 1
        c = Conds(f.node, lambda e, st: untag(view.expand(e, st))).of(r)
        ser = f.params[0]
        ref = to_formula(parse_expr('len(%s) == 0 or len(%s.dropna()) == 0' % (ser, ser)))
        w = Universe(int_atoms=lambda a: True).implies(c, ref)
        ctx.check('R-CONV/shortcut', f, 'series returned unconverted #%d' % n_sc, w is None,
                  '`return %s` hands the column back without converting its values under `%s`; allowed only when it has no '
                  'present value (empty, or nothing left after dropna)' % (U(r.value)[:40], show(c)[:120]), r,
                  sample='only for a column without present values')


def check_shortcut(ctx):
    """dataframe_column_to_str(inplace=True) may skip the conversion (plain astype(object)) only for a column that is
    empty or entirely missing"""
    repo = ctx.repo
    f = repo.fn(CONVERTER, 'dataframe_column_to_str')
    view = view_of(f)
    ex = lambda e, st: untag(view.expand(e, st))     # noqa
    conds = Conds(f.node, ex)
    frame, col = f.params[0], f.params[1]
    colx = '%s[%s]' % (frame, col)
    ref = to_formula(parse_expr('len(%s) == 0 or sum(pd.isnull(%s)) == len(%s)' % (colx, colx, colx)))
    n = 0
    for st in walk_own(f.node):
        if not (isinstance(st, ast.Assign) and isinstance(st.targets[0], ast.Subscript) and U(st.targets[0].value) == frame):
            continue
        vx = ex(st.value, st)
        sites = [(vx, st)]
        if isinstance(vx, ast.Name):
            # a value chosen on several branches: each branch is judged under its own condition
            ds = [d for d in view.reaching(vx.id, st) if d.value is not None and d.node is not None]
            if ds:
                sites = [(ex(d.value, d.node), d.node) for d in ds]
        for vx, at in sites:
            _shortcut_site(ctx, f, conds, ref, vx, at)
            n += 1
    ctx.floor('R-CONV/shortcut', n, 0, 'unconverted stores')


def _shortcut_site(ctx, f, conds, ref, vx, st):
    if True:
        if any(isinstance(x, ast.Call) and call_name(x) == 'series_to_str' for x in ast.walk(vx)):
            return
        c = conds.of(st)
        w = Universe(int_atoms=lambda a: True).implies(c, ref)
        ctx.check('R-CONV/shortcut', f, 'store without conversion', w is None,
                  '`%s` stores the column without converting its values under `%s`; that is allowed only when the column '
                  'is empty or entirely missing' % (U(st)[:60], show(c)[:120]), st, sample=show(c)[:100])


def run(ctx, gate=True, converter=True):
    if gate:
        ctx.group('R-DTYPE')
        check_gate(ctx)
    if converter:
        ctx.group('R-DTYPE')
        check_series_dispatch(ctx)
        ctx.group('R-CONV')
        check_heads(ctx)
        check_return_kinds(ctx)
        check_series_returns(ctx)
        check_shortcut(ctx)
        check_value_mapping(ctx)
        check_index_preserving(ctx)
        check_lost_update(ctx)
