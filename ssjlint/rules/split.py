"""R-SPLIT: serial/parallel twins compute the same per-row work on a contiguous partition.

For every `Parallel(..)(delayed(W)(args_j) for j in range(n))` in the package:
  twin      the other branch of the enclosing `if` calls the same worker W;
  args      the two argument lists are equal parameter by parameter (after expansion through
            reaching definitions) except the split parameter and the progress flag;
  split     the parallel twin passes `S[j]` with S = split_table(X, n), the serial twin passes X,
            n is the same value the generator ranges over, and the split parameter is the probe
            side (right table / candset) - the indexed left table goes whole to every job;
  guard     the parallel branch is only taken when n >= 1 (otherwise concat of nothing);
  concat    both branches define the same result variable, the parallel one as
            pd.concat(<the Parallel result>) - submission order kept;
  partition split_table's slices are contiguous: upper(i) == lower(i+1), lower(0) == 0,
            upper(n-1) == len(table) (symbolically), appended in order, over range(num_splits)."""
import ast
import copy

from .. import AnalysisError
from ..flow import view_of
from ..guards import Conds, Universe, to_formula, f_and, TRUE, show
from ..model import U
from ..symx import Norm, Rat, Unsupported
from .common import GENERIC, call_name, expander, walk_own, parse_expr, subst_names

EXCLUDE_MODULES = ('py_stringsimjoin/join/disk_edit_distance_join.py',)
PROGRESS_PARAMS = ('show_progress',)
SPLIT_PARAM_OK = ('rtable', 'rtable_list', 'rtable_array', 'candset')


def _find_sites(repo):
    sites = []
    for f in repo.all_funcs():
        if f.module.relpath in EXCLUDE_MODULES:
            continue
        for n in walk_own(f.node):
            if isinstance(n, ast.Call) and isinstance(n.func, ast.Call) and call_name(n.func) == 'Parallel':
                sites.append((f, n))
    return sites


def _enclosing_if(fnode, target):
    """innermost If whose body or orelse (transitively) contains target -> (ifnode, 'body'|'orelse')"""
    best = None

    def rec(stmts):
        nonlocal best
        for st in stmts:
            if isinstance(st, ast.If):
                for part, name in ((st.body, 'body'), (st.orelse, 'orelse')):
                    if any(x is target for s in part for x in ast.walk(s)):
                        best = (st, name)
                        rec(part)
            elif isinstance(st, (ast.For, ast.While, ast.With, ast.Try)):
                for fld in ('body', 'orelse', 'finalbody'):
                    rec(getattr(st, fld, []) or [])
    rec(fnode.body)
    return best


def check_sites(ctx):
    repo = ctx.repo
    sites = _find_sites(repo)
    for f, pcall in sites:
        view = view_of(f)
        key0 = f.qual
        gen = pcall.args[0] if pcall.args else None
        if isinstance(gen, ast.Name):
            # the task list built first and handed over by name
            ds = [d for d in view.reaching(gen.id, view.stmt_of(pcall)) if d.value is not None]
            if len(ds) == 1 and isinstance(ds[0].value, (ast.GeneratorExp, ast.ListComp)):
                gen = ds[0].value
        if not isinstance(gen, (ast.GeneratorExp, ast.ListComp)) or len(gen.generators) != 1:
            raise AnalysisError('%s: Parallel(..) argument is not a single generator' % f.where)
        comp = gen.generators[0]
        elt = gen.elt
        is_delayed = isinstance(elt, ast.Call) and ((isinstance(elt.func, ast.Call) and call_name(elt.func) == 'delayed') or
                                                    (isinstance(elt.func, ast.Name) and repo._delayed_alias(f, elt.func.id) is not None))
        if not is_delayed:
            raise AnalysisError('%s: generator element is not delayed(W)(args)' % f.where)
        pstmt = view.stmt_of(pcall)
        pres = repo.resolve_call(f, elt)
        if pres is None:
            raise AnalysisError('%s: parallel worker %s not resolvable' % (f.where, U(elt.func.args[0])))
        worker, _, pbind = pres
        ctx.check('R-SPLIT/generator', f, key0, not comp.ifs and not comp.is_async,
                  'parallel generator filters its jobs (`if` clause): some splits are never processed', pcall,
                  sample='for %s in %s' % (U(comp.target), U(comp.iter)))
        # ---- the twin
        enc = _enclosing_if(f.node, pcall)
        ifnode, part = enc if enc is not None else (None, None)
        scalls = []
        for c in repo.calls_in(f):
            if c is elt or any(x is c for x in ast.walk(pcall)):
                continue
            r = repo.resolve_call(f, c)
            if r is not None and r[0] is worker:
                scalls.append((c, r, view.stmt_of(c)))
        if ifnode is None:
            ifnode = f.node
        if not ctx.check('R-SPLIT/twin', f, key0, len(scalls) == 1,
                         'serial branch does not call the parallel worker %s exactly once (found %d calls)'
                         % (worker.qual, len(scalls)), ifnode, sample='worker %s' % worker.qual):
            continue
        scall, (_, _, sbind), sstmt = scalls[0]
        # ---- job variable and range
        jobvar = comp.target.id if isinstance(comp.target, ast.Name) else None
        it = view.expand(comp.iter, pstmt)
        n_expr = None
        direct_iter = None
        extra_keep = ()
        if isinstance(it, ast.Call) and call_name(it) == 'enumerate' and len(it.args) == 1 and not it.keywords \
                and isinstance(comp.target, ast.Tuple) and len(comp.target.elts) == 2 \
                and all(isinstance(x, ast.Name) for x in comp.target.elts):
            # for index, split in enumerate(split_table(X, n)): the element is the split, the index only feeds the progress flag
            extra_keep = (comp.target.elts[0].id,)
            jobvar = comp.target.elts[1].id
            it = it.args[0]
        if isinstance(it, ast.Call) and call_name(it) in ('range', 'xrange') and not it.keywords:
            if len(it.args) == 1:
                n_expr = it.args[0]
            elif len(it.args) == 2 and isinstance(it.args[0], ast.Constant) and it.args[0].value == 0:
                n_expr = it.args[1]
        elif isinstance(it, ast.Call) and call_name(it) == 'split_table':
            direct_iter = it
        if n_expr is None and direct_iter is None:
            ctx.check('R-SPLIT/range', f, key0, False,
                      'jobs range over `%s`, not over range(<number of splits>)' % U(comp.iter), pcall)
            continue
        # ---- argument comparison
        ex_keep = ((jobvar,) if jobvar else ()) + extra_keep
        diffs = []
        for p in worker.params:
            a_s, a_p = sbind.get(p), pbind.get(p)
            if a_s is None or a_p is None:
                diffs.append((p, a_s, a_p))
                continue
            es = view.expand(a_s, sstmt)
            ep = view.expand(a_p, pstmt, keep=ex_keep)
            if U(es) != U(ep):
                diffs.append((p, es, ep))
        split_params = []
        for p, es, ep in diffs:
            if p in PROGRESS_PARAMS:
                ctx.check('R-SPLIT/args', f, '%s/%s' % (key0, p), True, nontrivial=False)
                continue
            if es is None or ep is None:
                ctx.check('R-SPLIT/args', f, '%s/%s' % (key0, p), False,
                          'parameter %s of %s is passed in only one of the serial/parallel calls' % (p, worker.qual),
                          pcall)
                continue
            # candidate split parameter: parallel = S[j] or the loop variable itself
            is_split = False
            if direct_iter is not None and isinstance(ep, ast.Name) and ep.id == jobvar:
                sx, sn = _split_args(direct_iter)
                is_split = sx is not None and U(sx) == U(es)
                n_expr = sn
            elif isinstance(ep, ast.Subscript) and isinstance(ep.slice, ast.Name) and ep.slice.id == jobvar \
                    and isinstance(ep.value, ast.Call) and call_name(ep.value) == 'split_table':
                sx, sn = _split_args(ep.value)
                is_split = sx is not None and U(sx) == U(es)
                if is_split and sn is not None and n_expr is not None:
                    ctx.check('R-SPLIT/count', f, key0, U(sn) == U(n_expr),
                              'split_table makes `%s` splits but the jobs range over `%s`' % (U(sn), U(n_expr)), pcall,
                              sample='split_table(%s, %s) / range(%s)' % (U(sx), U(sn), U(n_expr)))
            if is_split:
                split_params.append(p)
            else:
                ctx.check('R-SPLIT/args', f, '%s/%s' % (key0, p), False,
                          'parameter %s of %s differs between the twins: serial `%s`, parallel `%s`'
                          % (p, worker.qual, U(es), U(ep)), pcall)
        same = [p for p in worker.params if p not in [d[0] for d in diffs]]
        ctx.check('R-SPLIT/args', f, key0 + '/equal-args', True, nontrivial=True,
                  sample='%d of %d parameters of %s identical in both twins; split: %s'
                         % (len(same), len(worker.params), worker.qual, split_params))
        ok_split = len(split_params) == 1
        ctx.check('R-SPLIT/split', f, key0, ok_split,
                  'expected exactly one parameter fed from split_table(X, n)[job] (serial: X); found %s'
                  % (split_params or 'none'), pcall)
        if ok_split:
            sp = split_params[0]
            ctx.check('R-SPLIT/side', f, key0, sp in SPLIT_PARAM_OK or sp.startswith('r') or 'candset' in sp,
                      'the table split across jobs is parameter `%s` of %s: the indexed (left) side must go whole to '
                      'every job, only the probe side (right table / candset) may be split' % (sp, worker.qual), pcall,
                      sample='split parameter %s' % sp)
        # ---- guard: parallel branch implies n >= 1
        if n_expr is not None:
            conds = Conds(f.node, expander(view))
            pc = conds.of(pstmt)
            uni = Universe(int_atoms=lambda a: True)
            want = to_formula(ast.Compare(left=n_expr, ops=[ast.GtE()], comparators=[ast.Constant(1)]))
            w = uni.implies(pc, want)
            ctx.check('R-SPLIT/guard', f, key0, w is None,
                      'the parallel branch can run with `%s` < 1 (no job, pd.concat of nothing); path condition: %s'
                      % (U(n_expr), show(pc)), ifnode, sample='parallel under %s' % show(pc))
        # ---- the two twins are alternatives: never both on one path
        conds_x = Conds(f.node, expander(view))
        from ..guards import f_not
        wx = Universe(int_atoms=lambda a: True).implies(conds_x.of(pstmt), f_not(conds_x.of(sstmt)))
        # (a serial `return W(..)` ends the path, so whatever follows it runs under the negation)
        ctx.check('R-SPLIT/exclusive', f, key0, wx is None,
                  'the serial and the parallel call of %s can both run in one invocation' % worker.qual, pcall,
                  sample='parallel only when the serial twin did not run')
        # ---- results: same variable defined in both branches; parallel via pd.concat(results)
        res_var = _assigned_name(pstmt)
        s_var = _assigned_name(sstmt)
        concat_ok = False
        out_var = None
        if res_var is not None and isinstance(sstmt, ast.Return):
            # serial: return W(..) ; parallel: return pd.concat(<results>)
            for st in conds_x.order:
                if isinstance(st, ast.Return) and isinstance(st.value, ast.Call) and U(st.value.func) in ('pd.concat', 'pandas.concat', 'concat') \
                        and st.value.args and isinstance(st.value.args[0], ast.Name) and st.value.args[0].id == res_var \
                        and view.dominates(pstmt, st):
                    concat_ok = True
                    out_var = s_var = '<returned>'
        elif res_var is not None:
            scope = (ifnode.body if part == 'body' else ifnode.orelse) if part is not None else f.node.body
            for st in scope:
                if isinstance(st, ast.Assign) and isinstance(st.value, ast.Call) and U(st.value.func) in ('pd.concat', 'pandas.concat', 'concat'):
                    a0 = st.value.args[0] if st.value.args else None
                    if isinstance(a0, ast.Name) and a0.id == res_var:
                        kws = {k.arg: k.value for k in st.value.keywords}
                        axis_ok = 'axis' not in kws or (isinstance(kws['axis'], ast.Constant) and kws['axis'].value in (0, 'index'))
                        concat_ok = axis_ok
                        out_var = _assigned_name(st)
        elif isinstance(pstmt, ast.Assign) and isinstance(pstmt.value, ast.Call) and U(pstmt.value.func).endswith('concat'):
            concat_ok = True
            out_var = _assigned_name(pstmt)
        ctx.check('R-SPLIT/concat', f, key0, concat_ok and out_var is not None and out_var == s_var,
                  'parallel results are not combined by pd.concat(<Parallel result>) into the variable the serial '
                  'branch defines (serial: %s, parallel: %s)' % (s_var, out_var), pstmt,
                  sample='%s = pd.concat(%s)' % (out_var, res_var))
    ctx.floor('R-SPLIT', len(sites), 12, 'Parallel sites')
    return len(sites)


def _split_args(call):
    if call.keywords or len(call.args) != 2:
        return None, None
    return call.args[0], call.args[1]


def _assigned_name(st):
    if isinstance(st, ast.Assign) and len(st.targets) == 1 and isinstance(st.targets[0], ast.Name):
        return st.targets[0].id
    return None


def check_split_table(ctx):
    repo = ctx.repo
    f = repo.fn(GENERIC, 'split_table')
    view = view_of(f)
    table_p, n_p = f.params[0], f.params[1]
    loops = [n for n in walk_own(f.node) if isinstance(n, ast.For)]
    comp_form = None
    if not loops:
        # return [table[lo(i):hi(i)] for i in range(num_splits)]
        for n in walk_own(f.node):
            if isinstance(n, ast.ListComp) and len(n.generators) == 1 and isinstance(n.elt, ast.Subscript) \
                    and isinstance(n.elt.slice, ast.Slice) and isinstance(n.elt.value, ast.Name) and n.elt.value.id == table_p:
                comp_form = n
        if comp_form is not None:
            host = view.stmt_of(comp_form)
            lp = ast.For(target=comp_form.generators[0].target, iter=comp_form.generators[0].iter, body=[host], orelse=[])
            ast.copy_location(lp, comp_form)
            lp._host = host
            loops = [lp]
    if len(loops) != 1:
        raise AnalysisError('%s: expected one loop (or comprehension) building the splits' % f.where)
    lp = loops[0]
    host = getattr(lp, '_host', lp)
    it = view.expand(lp.iter, host)
    zip_pair = None
    if isinstance(lp.iter, ast.Call) and call_name(lp.iter) == 'zip' and len(lp.iter.args) == 2 and isinstance(lp.target, ast.Tuple) \
            and len(lp.target.elts) == 2 and all(isinstance(x, ast.Name) for x in lp.target.elts):
        a0, a1 = lp.iter.args
        # for start, end in zip(B, B[1:]):  start = B[i], end = B[i+1], i in range(len(B) - 1)
        if isinstance(a0, ast.Name) and isinstance(a1, ast.Subscript) and isinstance(a1.value, ast.Name) and a1.value.id == a0.id \
                and isinstance(a1.slice, ast.Slice) and isinstance(a1.slice.lower, ast.Constant) and a1.slice.lower.value == 1 \
                and a1.slice.upper is None:
            ds = view.reaching(a0.id, host)
            if len(ds) == 1 and isinstance(ds[0].value, ast.ListComp) and len(ds[0].value.generators) == 1:
                g0 = ds[0].value.generators[0]
                if isinstance(g0.iter, ast.Call) and call_name(g0.iter) in ('range', 'xrange') and len(g0.iter.args) == 1:
                    zip_pair = (lp.target.elts[0].id, lp.target.elts[1].id, a0.id)
                    # the pairs run over range(K - 1) where K is the length of the boundary list
                    it = parse_expr('xrange(%s - 1)' % U(g0.iter.args[0]))
                    try:
                        it = parse_expr('xrange(%s)' % n_p) if Norm().visit(g0.iter.args[0]) == Norm().visit(parse_expr('%s + 1' % n_p)) else it
                    except Unsupported:
                        pass
    rng_ok = isinstance(it, ast.Call) and call_name(it) in ('range', 'xrange') and len(it.args) == 1 \
        and U(it.args[0]) == n_p and (isinstance(lp.target, ast.Name) or zip_pair is not None)
    ctx.check('R-SPLIT/partition-range', f, 'loop', rng_ok,
              'split loop does not range over range(%s): `%s`' % (n_p, U(lp.iter)), lp, sample=U(lp.iter))
    if not rng_ok:
        return
    i = lp.target.id if zip_pair is None else '__i__'
    slices = []
    for n in ast.walk(comp_form if comp_form is not None else lp):
        if isinstance(n, ast.Subscript) and isinstance(n.slice, ast.Slice) and isinstance(n.value, ast.Name) \
                and n.value.id == table_p:
            slices.append(n)
    if len(slices) != 1 or slices[0].slice.step is not None:
        raise AnalysisError('%s: expected one slice %s[lo:hi] in the split loop' % (f.where, table_p))
    sl = slices[0]
    st = view.stmt_of(sl) if comp_form is None else host
    lo = view.expand(sl.slice.lower, st, keep=(i,)) if sl.slice.lower is not None else ast.Constant(0)
    hi = view.expand(sl.slice.upper, st, keep=(i,)) if sl.slice.upper is not None else parse_expr('len(%s)' % table_p)
    if zip_pair is not None:
        sname, ename, bname = zip_pair
        lo = subst_names(lo, {sname: parse_expr('%s[%s]' % (bname, i))})
        hi = subst_names(hi, {ename: parse_expr('%s[%s + 1]' % (bname, i))})
    lo, hi = _through_boundary_list(view, lo, st, n_p), _through_boundary_list(view, hi, st, n_p)
    if lo is None or hi is None:
        ctx.check('R-SPLIT/partition-contiguous', f, 'boundaries', False,
                  'the precomputed boundary list does not hold one entry per split plus one', sl)
        return
    norm = Norm(erase=('float',))      # int() is kept: truncating an inexact float product is not rounding it
    try:
        lo_next = norm.visit(subst_names(lo, {i: parse_expr('%s + 1' % i)}))
        hi_r = norm.visit(hi)
        lo0 = norm.visit(subst_names(lo, {i: ast.Constant(0)}))
        hi_last = norm.visit(subst_names(hi, {i: parse_expr('%s - 1' % n_p)}))
        length = norm.visit(parse_expr('len(%s)' % table_p))
    except Unsupported as e:
        raise AnalysisError('%s: slice bounds not recognisable: %s' % (f.where, e))
    ctx.check('R-SPLIT/partition-contiguous', f, 'upper(i)==lower(i+1)', hi_r == lo_next,
              'slice %d does not start where slice %d-1 ends: upper(i) = %s, lower(i+1) = %s - rows are lost or '
              'duplicated between jobs' % (0, 0, hi_r.canon(), lo_next.canon()), sl,
              sample='upper(i) = %s ; lower(i+1) = %s' % (hi_r.canon(), lo_next.canon()))

    def arg_is(r, target):
        """r is `target` itself, an exact integer floor division giving it, or [int of] round() of it.
        A bare int()/floor()/ceil() of the float product i*(len/n) is NOT accepted: n*(len/n) can land just
        below or above len in floating point and the cut would lose or duplicate a row."""
        if r == target:
            return True
        sa = r.single_atom()
        if sa is not None and sa[1] == 1 and sa[2] == 0:
            info = norm.info(sa[0])
            if info and info[0] == 'call:int' and len(info[1]) == 1:
                return arg_is(info[1][0], target) and info[1][0] != target
            if info and info[0] in ('round', 'floordiv') and info[1][0] == target:
                return True
        return False
    ctx.check('R-SPLIT/partition-start', f, 'lower(0)==0', arg_is(lo0, Rat.const(0)),
              'first slice starts at %s, not at 0' % lo0.canon(), sl, sample='lower(0) = %s' % lo0.canon())
    ctx.check('R-SPLIT/partition-end', f, 'upper(n-1)==len', arg_is(hi_last, length),
              'last slice ends at %s, not at len(%s)' % (hi_last.canon(), table_p), sl,
              sample='upper(n-1) = %s' % hi_last.canon())
    # appended in order and returned
    appends = [n for n in ast.walk(lp) if isinstance(n, ast.Call) and call_name(n) == 'append'
               and any(x is sl for x in ast.walk(n))]
    rets = [n for n in walk_own(f.node) if isinstance(n, ast.Return)]
    if comp_form is not None:
        ok = len(rets) == 1 and (rets[0].value is comp_form or (
            isinstance(rets[0].value, ast.Name) and any(d.value is comp_form for d in view.reaching(rets[0].value.id, rets[0]))))
    else:
        ok = len(appends) == 1 and len(rets) == 1 and isinstance(rets[0].value, ast.Name) \
            and isinstance(appends[0].func.value, ast.Name) and appends[0].func.value.id == rets[0].value.id
    ctx.check('R-SPLIT/partition-order', f, 'append+return', ok,
              'slices are not appended in order to the returned list', lp, sample='append -> return')
    ctx.assume('round(num_splits * (len(table)/num_splits)) == len(table) in floating point for realistic sizes')


def _through_boundary_list(view, e, st, n_p):
    """`b[idx]` where b = [E(j) for j in range(K)] with K >= num_splits + 1  ->  E(idx); other expressions unchanged"""
    if isinstance(e, ast.Subscript) and isinstance(e.value, ast.Name) and not isinstance(e.slice, ast.Slice):
        ds = view.reaching(e.value.id, st)
        if len(ds) == 1 and isinstance(ds[0].value, ast.ListComp) and len(ds[0].value.generators) == 1:
            comp = ds[0].value
            g = comp.generators[0]
            if isinstance(g.iter, ast.Call) and call_name(g.iter) in ('range', 'xrange') and len(g.iter.args) == 1 \
                    and isinstance(g.target, ast.Name) and not g.ifs:
                try:
                    norm = Norm()
                    d = (norm.visit(g.iter.args[0]) - norm.visit(parse_expr('%s + 1' % n_p))).as_const()
                except Unsupported:
                    d = None
                if d is None or d < 0:
                    return None
                elt = view.expand(comp.elt, ds[0].node, keep=(g.target.id,))
                return subst_names(elt, {g.target.id: e.slice})
        return e
    return e


def run(ctx, table=True):
    ctx.group('R-SPLIT')
    check_sites(ctx)
    if table:
        check_split_table(ctx)
    ctx.assume('joblib.Parallel returns results in submission order')
