"""R-MASK: filter_candset is row-wise filter_pair; key->row lookups in filter_candset and apply_matcher.

mask    _filter_candset_split appends, once per candidate row (R-ONCE), `not filter_pair(L value, R value)`
        and returns `candset[mask]` (a Boolean mask on the input frame keeps columns, order and labels);
lookup  the values are looked up by the candidate row's left/right key in dictionaries built over the
        left/right table *without* removing missing values, keyed by the key attribute, and read at the
        filter/match attribute's column of that same table;
dict    build_dict_from_table maps row[key] -> row for every row (rows are skipped only under remove_null
        and a missing join value);
cache   apply_matcher's token cache maps key -> tokenize(value) with both columns taken from one frame,
        and is consulted with the candidate row's key of the same side."""
import ast

from .. import AnalysisError
from ..flow import view_of, untag
from ..guards import Conds, Universe, to_formula
from ..model import U
from ..side import expr_side
from .common import (P, FILTER_BASE, MATCHER, GENERIC, call_name, walk_own, parse_expr)


def _lookup_ok(view, f, e, st, side, attr_suffix):
    """e expands to  <dict over T>[<candset row>[candset key idx]][<T columns>.index(<attr>)]"""
    x = view.expand(e, st)
    txt = U(x)
    t = 'ltable' if side == 'L' else 'rtable'
    s = 'l' if side == 'L' else 'r'
    if not (isinstance(x, ast.Subscript) and isinstance(x.value, ast.Subscript)):
        return False, txt
    d = x.value.value
    key = x.value.slice
    col = x.slice
    ok = isinstance(d, ast.Call) and call_name(d) == 'build_dict_from_table' and d.args and U(d.args[0]) == t
    if ok:
        kws = {k.arg: k.value for k in d.keywords}
        rn = kws.get('remove_null', d.args[3] if len(d.args) > 3 else None)
        ok = isinstance(rn, ast.Constant) and rn.value is False
        ok = ok and U(d.args[1]) == 'list(%s.columns.values).index(%s_key_attr)' % (t, s)
    rowvar = None
    for n in ast.walk(f.node):
        if isinstance(n, ast.For) and isinstance(n.target, ast.Name) and U(n.iter).startswith('candset.itertuples(') \
                and any(x is st for x in ast.walk(n)):
            rowvar = n.target.id
    ok = ok and rowvar is not None and U(key) == '%s[list(candset.columns.values).index(candset_%s_key_attr)]' % (rowvar, s)
    ok = ok and U(col).startswith('list(%s.columns.values).index(%s_' % (t, s)) and U(col).endswith('%s)' % attr_suffix)
    return ok, txt


def check_candset_mask(ctx):
    repo = ctx.repo
    f = repo.fn(FILTER_BASE, '_filter_candset_split')
    view = view_of(f)
    from .common import mask_list_name
    mask = mask_list_name(f)
    apps = [n for n in walk_own(f.node) if isinstance(n, ast.Expr) and isinstance(n.value, ast.Call) and call_name(n.value) == 'append'
            and U(n.value.func.value) == mask]
    if len(apps) != 1:
        raise AnalysisError('%s: mask append not found' % f.where)
    a = apps[0]
    v = a.value.args[0]
    ok = isinstance(v, ast.UnaryOp) and isinstance(v.op, ast.Not) and isinstance(v.operand, ast.Call) \
        and call_name(v.operand) == 'filter_pair' and U(v.operand.func.value) == 'filter_object' and len(v.operand.args) == 2
    ctx.check('R-MASK/polarity', f, 'mask value', ok,
              'the mask entry is `%s`; a row is kept iff filter_pair does NOT drop it: not filter_object.filter_pair(l, r)'
              % U(v)[:80], a, sample='not filter_object.filter_pair(l, r)')
    if ok:
        for i, side in ((0, 'L'), (1, 'R')):
            good, txt = _lookup_ok(view, f, v.operand.args[i], a, side, 'filter_attr')
            ctx.check('R-MASK/lookup', f, '%s value' % side, good,
                      'the %s value passed to filter_pair is `%s`: it must be the filter attribute of the %s-table row whose '
                      'key is the candidate row\'s %s key, looked up without dropping missing values'
                      % (side, txt[:160], side, side), a, sample=txt[:120])
    rets = [n for n in walk_own(f.node) if isinstance(n, ast.Return)]
    okr = len(rets) == 1 and U(rets[0].value) == 'candset[%s]' % mask
    ctx.check('R-MASK/result', f, 'return', okr,
              '_filter_candset_split returns `%s`, not candset[valid_rows]' % (U(rets[0].value) if rets else '?'), f.node,
              sample='candset[valid_rows]')
    # the loop runs over every candidate row, positionally
    loops = [n for n in walk_own(f.node) if isinstance(n, ast.For) and any(x is a for x in ast.walk(n))]
    okl = len(loops) == 1 and U(loops[0].iter) == 'candset.itertuples(index=False)'
    ctx.check('R-MASK/rows', f, 'row loop', okl, 'the mask is not built over candset.itertuples(index=False)', loops[0] if loops else f.node,
              sample='for candset_row in candset.itertuples(index=False)')
    # caller hands over frames that contain key and filter attribute
    g = repo.fn(FILTER_BASE, 'Filter.filter_candset')
    gv = view_of(g)
    for c in repo.calls_in(g):
        r = repo.resolve_call(g, c)
        if r is not None and r[0] is f:
            b = r[2]
            st = gv.stmt_of(c)
            for s, t in (('l', 'ltable'), ('r', 'rtable')):
                e = U(gv.expand(b[t], st))
                ok = e == '%s[[%s_key_attr, %s_filter_attr]]' % (t, s, s)
                ctx.check('R-MASK/projection', g, '%s%s' % (t, '/parallel' if isinstance(c.func, ast.Call) else ''), ok,
                          'the worker receives `%s` as %s' % (e, t), c, sample=e)
            okf = U(b['filter_object']) == 'self'
            ctx.check('R-MASK/projection', g, 'filter object%s' % ('/parallel' if isinstance(c.func, ast.Call) else ''), okf,
                      'filter_candset applies `%s`, not this filter' % U(b['filter_object']), c, nontrivial=False)
    # an empty candset is returned as is, before any work
    rets = [n for n in walk_own(g.node) if isinstance(n, ast.Return) and U(n.value) == 'candset']
    if rets:
        c = Conds(g.node, None).of(rets[0])
        w = Universe().equivalent(c, to_formula(parse_expr('candset.empty')))
        ctx.check('R-MASK/empty', g, 'early return', w is None, 'the unfiltered candset is returned under `%s`' % U(rets[0]), rets[0],
                  nontrivial=False)


def _row_source(repo, f, view, it, st, t, j, rn):
    """the iterable the dictionary is built from yields every row of table.itertuples(index=False) except,
    under remove_null, those whose join value is missing -> (ok, row variable conditions handled)"""
    x = view.expand(it, st, inline=False)
    if U(x) == '%s.itertuples(index=False)' % t:
        return 'direct'
    if isinstance(x, ast.Call):
        r = repo._resolve(f, x, repo.local_types(f))
        if r is not None:
            callee = r[0]
            from ..model import bind
            b = bind(callee, r[1], x.args, x.keywords)
            inv = {U(v): k for k, v in b.items()}
            tp, jp, rp = inv.get(t), inv.get(j), inv.get(rn)
            loops = [n for n in walk_own(callee.node) if isinstance(n, ast.For)]
            ys = [n for n in ast.walk(callee.node) if isinstance(n, ast.Yield)]
            if tp and jp and rp and len(loops) == 1 and len(ys) == 1 and U(loops[0].iter) == '%s.itertuples(index=False)' % tp \
                    and isinstance(loops[0].target, ast.Name) and U(ys[0].value) == loops[0].target.id:
                row = loops[0].target.id
                cv = view_of(callee)
                yst = cv.stmt_of(ys[0])
                c = Conds(callee.node, None).of(yst)
                ref = to_formula(parse_expr('not (%s and pd.isnull(%s[%s]))' % (rp, row, jp)))
                if Universe().equivalent(c, ref) is None:
                    return 'generator'
    return None


def check_build_dict(ctx):
    repo = ctx.repo
    f = repo.fn(GENERIC, 'build_dict_from_table')
    view = view_of(f)
    t, k, j, rn = f.params[:4]
    loops = [n for n in walk_own(f.node) if isinstance(n, ast.For)]
    comps = [n for n in ast.walk(f.node) if isinstance(n, ast.DictComp)]
    ok = False
    if len(loops) == 1 and not comps:
        lp = loops[0]
        src = _row_source(repo, f, view, lp.iter, lp, t, j, rn)
        stores = [n for n in walk_own(f.node) if isinstance(n, ast.Assign) and isinstance(n.targets[0], ast.Subscript)]
        rows = lp.target.id if isinstance(lp.target, ast.Name) else None
        ok = src is not None and rows is not None and len(stores) == 1 \
            and U(stores[0].targets[0].slice) == '%s[%s]' % (rows, k) and U(stores[0].value) in ('tuple(%s)' % rows, rows)
        if ok:
            c = Conds(f.node, None).of(stores[0])
            if src == 'direct':
                ref = to_formula(parse_expr('not (%s and pd.isnull(%s[%s]))' % (rn, rows, j)))
                ok = Universe().equivalent(c, ref) is None
            else:
                from ..guards import TRUE
                ok = Universe().equivalent(c, TRUE) is None
        rets = [n for n in walk_own(f.node) if isinstance(n, ast.Return)]
        ok = ok and len(rets) == 1 and U(rets[0].value) == U(stores[0].targets[0].value)
    elif len(comps) == 1 and not loops:
        c0 = comps[0]
        g = c0.generators[0]
        st = view.stmt_of(c0)
        rows = g.target.id if isinstance(g.target, ast.Name) else None
        src = _row_source(repo, f, view, g.iter, st, t, j, rn)
        ok = len(c0.generators) == 1 and rows is not None and src is not None \
            and U(c0.key) == '%s[%s]' % (rows, k) and U(c0.value) in ('tuple(%s)' % rows, rows)
        if ok and src == 'direct':
            ifs = g.ifs
            cond = to_formula(ast.BoolOp(op=ast.And(), values=list(ifs))) if len(ifs) > 1 else (to_formula(ifs[0]) if ifs else None)
            ref = to_formula(parse_expr('not (%s and pd.isnull(%s[%s]))' % (rn, rows, j)))
            ok = cond is not None and Universe().equivalent(cond, ref) is None
        elif ok:
            ok = not g.ifs
        rets = [n for n in walk_own(f.node) if isinstance(n, ast.Return)]
        ok = ok and len(rets) == 1 and (rets[0].value is c0 or (isinstance(rets[0].value, ast.Name) and any(
            d.value is c0 for d in view.reaching(rets[0].value.id, rets[0]))))
    ctx.check('R-MASK/dict', f, 'mapping', ok,
              'build_dict_from_table must map row[key index] -> row for every row, skipping only missing join values under '
              'remove_null', f.node, sample='d[row[key_attr_index]] = tuple(row)')


def check_matcher_lookup(ctx):
    repo = ctx.repo
    f = repo.fn(MATCHER, '_apply_matcher_split')
    view = view_of(f)
    # the two values handed to the similarity function: the arguments of the one call of a *parameter* with two
    # positional arguments (whatever the locals are called)
    simcalls = [c for c in repo.calls_in(f) if isinstance(c.func, ast.Name) and c.func.id in f.params and len(c.args) == 2
                and not c.keywords and all(isinstance(a, ast.Name) for a in c.args)]
    if len(simcalls) != 1:
        raise AnalysisError('%s: the call of the similarity function on two values was not found' % f.where)
    for nm, side in ((simcalls[0].args[0].id, 'L'), (simcalls[0].args[1].id, 'R')):
        defs = [n for n in walk_own(f.node) if isinstance(n, ast.Assign) and isinstance(n.targets[0], ast.Name)
                and n.targets[0].id == nm]
        base = [d for d in defs if isinstance(d.value, ast.Subscript) and 'tokens' not in U(d.value)]
        if len(base) != 1:
            raise AnalysisError('%s: base definition of %s not found' % (f.where, nm))
        good, txt = _lookup_ok(view, f, base[0].value, base[0], side, 'match_attr')
        ctx.check('R-MASK/lookup', f, 'matcher %s value' % side, good,
                  'the %s value given to sim_function is `%s`: must be the match attribute of the %s-table row keyed by the '
                  'candidate row\'s %s key' % (side, txt[:160], side, side), base[0], sample=txt[:120])
        s = side.lower()
        for d in defs:
            if d is base[0]:
                continue
            e = U(d.value)
            v = d.value
            # the cache entry of this row's own key (cache and key of this side), or tokenize(this very value)
            from ..side import expr_side as _es
            is_cache = isinstance(v, ast.Subscript) and isinstance(v.value, ast.Name) and v.value.id in f.params \
                and _es(v.value) == side and _es(v.slice) == side
            if is_cache:
                kx = view.expand(v.slice, d)
                is_cache = isinstance(kx, ast.Subscript) and _es(kx.slice) == side
            is_tok = isinstance(v, ast.Call) and isinstance(v.func, ast.Attribute) and v.func.attr == 'tokenize' \
                and len(v.args) == 1 and U(v.args[0]) == nm
            ok = is_cache or is_tok
            ctx.check('R-MASK/cache', f, '%s: %s' % (nm, e[:40]), ok,
                      '`%s = %s`: the tokenized value must be the cache entry of this row\'s own key or '
                      'tokenizer.tokenize of this row\'s own value' % (nm, e), d, sample=e)
    # the values are tokenized exactly when a tokenizer was given: on every path from the function entry to the call of
    # the similarity function the arguments are tokens (tokenize(..) / a cache entry) iff `tokenizer is not None` held
    from ..paths import enumerate_paths, symexec
    cfg = view.cfg
    node = cfg.node_of(view.stmt_of(simcalls[0]))
    bad = None
    seen = {True: 0, False: 0}
    for pth in enumerate_paths(cfg, cfg.entry.id, {node.id}, stop={node.id}, limit=20000):
        ps = symexec(pth)
        if any(isinstance(e, ast.Constant) and bool(e.value) != pol for e, pol, _ in ps.conds):
            continue        # infeasible: a flag set earlier on this path contradicts the branch taken
        has_tok = None
        for e, pol, _ in ps.conds:
            t = U(e)
            if t == 'tokenizer is not None':
                has_tok = pol
            elif t == 'tokenizer is None':
                has_tok = not pol
            elif t == 'tokenizer':
                has_tok = pol
        if has_tok is None:
            continue
        seen[has_tok] += 1
        for a in simcalls[0].args:
            val = ps.env.get(a.id)
            tokd = val is not None and ('.tokenize(' in U(val) or '_tokens[' in U(val))
            if tokd != has_tok and bad is None:
                bad = 'with%s a tokenizer the similarity function receives `%s`' % ('' if has_tok else 'out', U(val)[:60] if val is not None else a.id)
    ctx.check('R-MASK/tokenize', f, 'tokenized iff a tokenizer is given', bad is None and seen[True] > 0 and seen[False] > 0,
              'the values handed to the similarity function must be token collections exactly when a tokenizer was given: %s' % bad,
              simcalls[0], sample='%d paths with, %d without a tokenizer' % (seen[True], seen[False]))
    # generate_tokens
    g = repo.fn(MATCHER, 'generate_tokens')
    tb, ka, ja, tk = g.params[:4]
    gv = view_of(g)
    rets = [n for n in walk_own(g.node) if isinstance(n, ast.Return)]
    ok = len(rets) == 1
    if ok:
        e = gv.expand(rets[0].value, rets[0])
        nn = '%s[pd.notnull(%s[%s])]' % (tb, tb, ja)
        want = 'dict(zip(%s[%s], %s[%s].apply(%s.tokenize)))' % (nn, ka, nn, ja, tk)
        ok = U(e) == want
        got = U(e)
    ctx.check('R-MASK/cache', g, 'generate_tokens', ok,
              'the token cache is `%s`; it must pair each non-missing row\'s key with tokenize(its own value), both '
              'columns taken from the same filtered frame' % (got[:160] if rets else '?'), g.node,
              sample='dict(zip(T[key], T[attr].apply(tokenizer.tokenize))) over T = table[notnull(attr)]')
    a = repo.fn(MATCHER, 'apply_matcher')
    av = view_of(a)
    n = 0
    seen_sides = []
    for h in repo.all_funcs():
        if h.module is not a.module or h is g:
            continue
        hv = None
        for c in repo.calls_in(h):
            r = repo.resolve_call(h, c)
            if r is None or r[0] is not g:
                continue
            n += 1
            b = r[2]
            hv = hv or view_of(h)
            st = hv.stmt_of(c)

            def public(e):
                """the argument written over apply_matcher's own (public) parameters"""
                x = untag(hv.expand(e, st))
                if h is a:
                    return x
                sites = [(c2, repo.resolve_call(a, c2)) for c2 in repo.calls_in(a)]
                sites = [(c2, r2) for c2, r2 in sites if r2 is not None and r2[0] is h]
                if len(sites) != 1:
                    raise AnalysisError('%s: helper %s is not called exactly once from apply_matcher' % (a.where, h.name))
                c2, r2 = sites[0]
                st2 = av.stmt_of(c2)
                from .common import subst_names
                return subst_names(x, {p_: untag(av.expand(v_, st2)) for p_, v_ in r2[2].items()})
            tx, kx, jx, tkx = public(b[tb]), public(b[ka]), public(b[ja]), public(b[tk])
            s = 'l' if U(tx).startswith('ltable') else 'r' if U(tx).startswith('rtable') else '?'
            seen_sides.append(s)
            t = 'ltable' if s == 'l' else 'rtable'
            okc = s != '?' and U(tx).startswith(t + '[') and U(kx) == '%s_key_attr' % s and U(jx) == '%s_match_attr' % s \
                and U(tkx) == 'tokenizer'
            ctx.check('R-MASK/cache', a, '%s_tokens = generate_tokens(..)' % s, okc,
                      'a token cache is generated from (%s, %s, %s)' % (U(tx)[:50], U(kx), U(jx)), c,
                      sample='%s_tokens from (%s, %s_key_attr, %s_match_attr)' % (s, t, s, s))
    if n != 2 or sorted(seen_sides) != ['l', 'r']:
        raise AnalysisError('%s: expected one generate_tokens call per side (found %d: %s)' % (a.where, n, seen_sides))


def run(ctx, candset=True, matcher=False):
    ctx.group('R-MASK')
    check_build_dict(ctx)
    if candset:
        check_candset_mask(ctx)
    if matcher:
        check_matcher_lookup(ctx)
