"""R-CAND: candidates arise only from index probes, once, over the whole prefix and size window.

slice      every slice cut at a prefix length is `tokens[0:get_prefix_length(len(tokens), M, t, tok)]`
           (suffix: `tokens[that:]`) - the length is computed from the list being cut, with the
           filter's own measure/threshold/tokenizer;
unique     find_candidates returns a set or dict on every path;
provenance (Prefix/Position/Overlap) every insertion into the result happens inside a loop over
           the probe tokens and inserts what `index.probe(token)` returned for that token; every
           posting is appended inside a loop over that row's own tokens;
window     the size window is [get_size_lower_bound(n), get_size_upper_bound(n)] of the probe size
           with the filter's measure/threshold, clamped inward only by the index min/max length,
           and ranges over it are inclusive (`range(lo, hi + 1)`);
prune      PositionFilter: a candidate is marked pruned exactly when
           cur + min(probe_n - probe_pos, cand_n - cand_pos) < T[cand_n] inside the window, kept
           (+1) on the negation, with T[s] = get_overlap_threshold(s, probe_n, M, t, tok);
consume    position-filter candidates are used iff overlap > 0."""
import ast

from .. import AnalysisError
from ..flow import view_of
from ..guards import Conds, Universe, to_formula, f_and, f_or, f_not, literals, show, TRUE, FALSE
from ..model import U
from ..paths import enumerate_paths, symexec
from ..symx import Norm, Rat, Unsupported
from .common import P, FILTERS, SET_SIM_JOIN, call_name, walk_own, expander, parse_expr, subst_names


def _norm_select(e):
    """`a if a > b else b` / `b if a < b else a` -> max(a, b) etc."""
    class T(ast.NodeTransformer):
        def visit_IfExp(s, n):
            s.generic_visit(n)
            t = n.test
            if isinstance(t, ast.Compare) and len(t.ops) == 1:
                l, r, op = t.left, t.comparators[0], t.ops[0]
                b, o = U(n.body), U(n.orelse)
                lt, rt = U(l), U(r)
                if {b, o} == {lt, rt}:
                    if isinstance(op, (ast.Lt, ast.LtE)):
                        small, big = lt, rt
                    elif isinstance(op, (ast.Gt, ast.GtE)):
                        small, big = rt, lt
                    else:
                        return n
                    # body is chosen when test holds
                    fn = 'min' if b == small else 'max'
                    return ast.Call(func=ast.Name(id=fn, ctx=ast.Load()), args=[l, r], keywords=[])
            return n
    import copy
    return T().visit(copy.deepcopy(e))


def _self_to(e, recv):
    """rename the receiver of attribute reads: self.x -> <recv>.x (to compare a method with its worker)"""
    return e


# --------------------------------------------------------------------------- slices

def check_slices(ctx):
    repo = ctx.repo
    n = 0
    for f in repo.all_funcs():
        rel = f.module.relpath
        if not (rel.startswith(P + 'filter/') or rel.startswith(P + 'index/')):
            continue
        view = None
        for node in walk_own(f.node):
            if not (isinstance(node, ast.Subscript) and isinstance(node.slice, ast.Slice)):
                continue
            if view is None:
                view = view_of(f)
            st = view.stmt_of(node)
            lo = view.expand(node.slice.lower, st) if node.slice.lower is not None else None
            hi = view.expand(node.slice.upper, st) if node.slice.upper is not None else None
            pl = None
            kind = None
            if hi is not None and isinstance(hi, ast.Call) and call_name(hi) == 'get_prefix_length':
                pl, kind = hi, 'prefix'
            elif lo is not None and isinstance(lo, ast.Call) and call_name(lo) == 'get_prefix_length':
                pl, kind = lo, 'suffix'
            if pl is None:
                # a slice of a token list that does not end at a prefix length where one is expected is caught
                # by the provenance rules; other slices (suffix arrays, split_table) are not this rule's business
                continue
            n += 1
            seq = view.expand(node.value, st)
            key = '%s[%s]' % (U(node.value), 'prefix' if kind == 'prefix' else 'suffix')
            ok = True
            why = ''
            a = pl.args
            if len(a) != 4 or pl.keywords:
                ok, why = False, 'get_prefix_length is not called with (size, measure, threshold, tokenizer)'
            else:
                size = a[0]
                want = ['len(%s)' % U(seq)]
                # an ordered copy of a token list has the length of the list it orders when the ordering was
                # generated from that very list (pair-level ordering in filter_pair)
                if isinstance(seq, ast.Call) and call_name(seq) == 'order_using_token_ordering' and len(seq.args) == 2 \
                        and isinstance(seq.args[1], ast.Call) and call_name(seq.args[1]) == 'gen_token_ordering_for_lists' \
                        and seq.args[1].args and isinstance(seq.args[1].args[0], ast.List) \
                        and U(seq.args[0]) in [U(x) for x in seq.args[1].args[0].elts]:
                    want.append('len(%s)' % U(seq.args[0]))
                if U(size) not in want:
                    ok, why = False, 'prefix length is computed from `%s` but cuts `%s`' % (U(size)[:80], U(seq)[:80])
                roles = [('sim_measure_type', a[1]), ('threshold', a[2]), ('tokenizer', a[3])]
                for role, e in roles:
                    if not ((isinstance(e, ast.Attribute) and e.attr == role) or (isinstance(e, ast.Name) and e.id == role)):
                        ok, why = False, 'argument for %s of get_prefix_length is `%s`' % (role, U(e)[:60])
            if ok and kind == 'prefix' and lo is not None and not (isinstance(lo, ast.Constant) and lo.value == 0):
                ok, why = False, 'prefix slice starts at `%s`, not at 0' % U(lo)
            if ok and kind == 'suffix' and hi is not None:
                ok, why = False, 'suffix slice is cut at `%s`' % U(hi)[:60]
            if ok and node.slice.step is not None:
                ok, why = False, 'slice has a step'
            ctx.check('R-CAND/slice', f, key, ok, 'token slice `%s`: %s' % (U(node)[:80], why), node,
                      sample='%s cut at get_prefix_length(len(same list), ...)' % U(node.value))
    ctx.floor('R-CAND/slice', n, 12, 'prefix/suffix slices')


# --------------------------------------------------------------------------- find_candidates

def _result_names(f):
    out = set()
    for n in walk_own(f.node):
        if isinstance(n, ast.Return) and isinstance(n.value, ast.Name):
            out.add(n.value.id)
    return out


def check_unique(ctx):
    repo = ctx.repo
    for cls, (path, _, _) in sorted(FILTERS.items()):
        if cls == 'SuffixFilter':
            continue
        f = repo.fn(path, cls + '.find_candidates')
        view = view_of(f)
        bad = None
        n = 0
        for node in walk_own(f.node):
            if not isinstance(node, ast.Return):
                continue
            n += 1
            v = node.value
            kinds = []
            if isinstance(v, ast.Name):
                for d in view.reaching(v.id, node):
                    kinds.append(d.value)
            else:
                kinds.append(v)
            for k in kinds:
                ok = isinstance(k, (ast.Dict, ast.Set, ast.SetComp, ast.DictComp)) or \
                    (isinstance(k, ast.Call) and U(k.func).split('.')[-1] in ('set', 'dict', 'frozenset', 'defaultdict', 'Counter', 'OrderedDict'))
                if not ok and bad is None:
                    bad = 'returns `%s`' % (U(k)[:60] if k is not None else '?')
        ctx.check('R-CAND/unique', f, 'return kind', bad is None and n > 0,
                  'find_candidates %s: a candidate could be delivered once per shared token (duplicate output rows)' % bad,
                  f.node, sample='%d returns, all set/dict' % n)


def _enclosing_loops(f, stmt):
    chain = []

    def rec(stmts, cur):
        for st in stmts:
            if st is stmt or any(x is stmt for x in ast.walk(st)) and not isinstance(st, (ast.For, ast.While, ast.If, ast.With, ast.Try)):
                if st is stmt or any(x is stmt for x in ast.walk(st)):
                    chain.extend(cur)
                    return True
            for fld in ('body', 'orelse', 'finalbody'):
                sub = getattr(st, fld, None)
                if sub and rec(sub, cur + [st] if isinstance(st, (ast.For, ast.While)) and fld == 'body' else cur):
                    return True
        return False
    rec(f.node.body, [])
    return chain


def check_provenance(ctx):
    repo = ctx.repo
    for cls in ('PrefixFilter', 'PositionFilter', 'OverlapFilter'):
        path = FILTERS[cls][0]
        f = repo.fn(path, cls + '.find_candidates')
        view = view_of(f)
        probe_param = f.params[1]
        index_param = f.params[2]
        res = _result_names(f)
        muts = []
        for node in walk_own(f.node):
            if isinstance(node, ast.Expr) and isinstance(node.value, ast.Call) and isinstance(node.value.func, ast.Attribute) \
                    and isinstance(node.value.func.value, ast.Name) and node.value.func.value.id in res \
                    and node.value.func.attr in ('add', 'update', 'append', 'extend', 'setdefault'):
                muts.append((node, node.value.args[0] if node.value.args else None))
            if isinstance(node, (ast.Assign, ast.AugAssign)):
                ts = node.targets if isinstance(node, ast.Assign) else [node.target]
                for t in ts:
                    if isinstance(t, ast.Subscript) and isinstance(t.value, ast.Name) and t.value.id in res:
                        muts.append((node, t.slice))
        if not muts:
            raise AnalysisError('%s: no insertion into the candidate collection found' % f.where)
        for i, (st, what) in enumerate(muts):
            loops = _enclosing_loops(f, st)
            tok_loop = None
            tok_name = None
            for lp in loops:
                if isinstance(lp, ast.For):
                    it = lp.iter
                    tgt = lp.target
                    if isinstance(it, ast.Call) and call_name(it) == 'enumerate' and it.args and isinstance(tgt, ast.Tuple) and len(tgt.elts) == 2:
                        it, tgt = it.args[0], tgt.elts[1]
                    if isinstance(it, ast.Name) and it.id != probe_param:
                        it = view.expand(it, lp)        # `prefix = probe_tokens[0:k]` bound first, then iterated
                    base = it.value if isinstance(it, ast.Subscript) else it
                    if isinstance(base, ast.Name) and base.id == probe_param and isinstance(tgt, ast.Name):
                        tok_loop = lp
                        tok_name = tgt.id
            ok = tok_loop is not None
            why = 'not inside a loop over the probe tokens `%s`' % probe_param
            if ok:
                tok = tok_name
                # the inserted value derives from <index>.probe(tok)
                src = None
                if isinstance(what, ast.Call) and call_name(what) == 'probe':
                    src = what
                else:
                    for lp in loops:
                        if isinstance(lp, ast.For) and isinstance(lp.iter, ast.Call) and call_name(lp.iter) == 'probe' \
                                and what is not None and any(isinstance(x, ast.Name) and x.id in [n.id for n in ast.walk(lp.target) if isinstance(n, ast.Name)] for x in ast.walk(what)):
                            src = lp.iter
                ok = src is not None and len(src.args) == 1 and isinstance(src.args[0], ast.Name) and src.args[0].id == tok \
                    and isinstance(src.func.value, ast.Name) and src.func.value.id == index_param
                why = 'the inserted candidate does not come from %s.probe(%s)' % (index_param, tok)
            ctx.check('R-CAND/provenance', f, 'insertion %d' % (i + 1), ok,
                      'candidate insertion `%s` is %s: a pair without a common token could become a candidate'
                      % (U(st).split('\n')[0][:70], why), st, sample='inside for %s in %s: ... %s.probe(%s)' % (
                          tok_name or '?', probe_param, index_param, tok_name or '?'))
    # index side: postings are appended per token of the row; probe() reads the same map
    for cls, (fpath, ipath, icls) in sorted(FILTERS.items()):
        if icls is None or icls == 'SizeIndex':
            continue
        b = repo.fn(ipath, icls + '.build')
        view = view_of(b)
        posts = []
        for node in walk_own(b.node):
            if isinstance(node, ast.Expr) and isinstance(node.value, ast.Call) and call_name(node.value) == 'append':
                recv = node.value.func.value
                # self.index.get(token).append(..) / self.index[token].append(..)
                key = None
                if isinstance(recv, ast.Call) and call_name(recv) == 'get' and U(recv.func.value) == 'self.index' and recv.args:
                    key = recv.args[0]
                elif isinstance(recv, ast.Subscript) and U(recv.value) == 'self.index':
                    key = recv.slice
                elif isinstance(recv, ast.Call) and call_name(recv) == 'setdefault' and U(recv.func.value) == 'self.index' and recv.args:
                    key = recv.args[0]
                if key is not None:
                    posts.append((node, key))
        if not posts:
            raise AnalysisError('%s: no posting append found' % b.where)
        for i, (st, key) in enumerate(posts):
            loops = _enclosing_loops(b, st)
            ok = False
            for lp in loops:
                if not isinstance(lp, ast.For) or not isinstance(key, ast.Name):
                    continue
                tnames = [x.id for x in ast.walk(lp.target) if isinstance(x, ast.Name)]
                it = view.expand(lp.iter, lp)
                if isinstance(it, ast.Call) and call_name(it) == 'enumerate' and it.args and isinstance(lp.target, ast.Tuple) \
                        and len(lp.target.elts) == 2:
                    tnames = [x.id for x in ast.walk(lp.target.elts[1]) if isinstance(x, ast.Name)]
                    it = it.args[0]
                if key.id in tnames and len(tnames) == 1:
                    base = it.value if isinstance(it, ast.Subscript) else it
                    ok = 'tokenize(' in U(base) and 'self.index_attr' in U(base)
            ctx.check('R-CAND/posting', b, 'posting %d' % (i + 1), ok,
                      'posting `%s` is not appended under a token of the row being indexed' % U(st)[:70], st,
                      sample='for token in <tokens of row[self.index_attr]>: self.index[token].append(..)')
        pr = repo.fn(ipath, icls + '.probe')
        rets = [n for n in walk_own(pr.node) if isinstance(n, ast.Return)]
        ok = len(rets) == 1 and isinstance(rets[0].value, ast.Call) and call_name(rets[0].value) == 'get' \
            and U(rets[0].value.func.value) == 'self.index' and len(rets[0].value.args) == 2 \
            and isinstance(rets[0].value.args[0], ast.Name) and rets[0].value.args[0].id == pr.params[1] \
            and isinstance(rets[0].value.args[1], (ast.List, ast.Tuple)) and not rets[0].value.args[1].elts
        ctx.check('R-CAND/probe', pr, 'probe', ok, 'probe() is not `self.index.get(<key>, [])`', pr.node,
                  sample='self.index.get(key, [])')


# --------------------------------------------------------------------------- window / range

def _ref_window(norm, size_expr, idx):
    lo = norm.visit(parse_expr('max(get_size_lower_bound(%s, self.sim_measure_type, self.threshold), %s.min_length)' % (size_expr, idx)))
    hi = norm.visit(parse_expr('min(get_size_upper_bound(%s, self.sim_measure_type, self.threshold), %s.max_length)' % (size_expr, idx)))
    return lo, hi


def check_window(ctx):
    repo = ctx.repo
    for cls, size_src in (('SizeFilter', None), ('PositionFilter', None)):
        path = FILTERS[cls][0]
        f = repo.fn(path, cls + '.find_candidates')
        view = view_of(f)
        idx = f.params[2]
        size_expr = f.params[1] if cls == 'SizeFilter' else 'len(%s)' % f.params[1]
        ranges = [n for n in walk_own(f.node) if isinstance(n, ast.For) and isinstance(n.iter, ast.Call)
                  and call_name(n.iter) in ('range', 'xrange') and len(n.iter.args) == 2]
        for n in walk_own(f.node):
            if isinstance(n, (ast.DictComp, ast.ListComp, ast.SetComp, ast.GeneratorExp)):
                for g_ in n.generators:
                    if isinstance(g_.iter, ast.Call) and call_name(g_.iter) in ('range', 'xrange') and len(g_.iter.args) == 2:
                        stub = ast.For(target=g_.target, iter=g_.iter, body=[], orelse=[])
                        ast.copy_location(stub, n)
                        stub._host = view.stmt_of(n)
                        ranges.append(stub)
        if not ranges:
            # no loop over the window. If the function (and what it calls directly) never even computes a size bound,
            # the window is provably not applied: that is a violation, not an unreadable shape
            seen = set()
            for c_ in repo.calls_in(f):
                seen.add(call_name(c_))
                r_ = repo.resolve_call(f, c_)
                if r_ is not None:
                    seen.update(call_name(x) for x in repo.calls_in(r_[0]))
            if not ({'get_size_lower_bound', 'get_size_upper_bound'} & seen):
                ctx.check('R-CAND/window', f, 'size window', False,
                          '%s.find_candidates computes neither get_size_lower_bound nor get_size_upper_bound of the probe size: '
                          'candidates outside the size window are no longer dismissed, so the filter keeps pairs the size '
                          'filter drops (the overlap bound does not subsume it: both round to 4 decimals before ceil/floor)'
                          % cls, f.node)
                continue
            raise AnalysisError('%s: no range(lo, hi + 1) loop over the size window' % f.where)
        for i, lp in enumerate(ranges):
            host = getattr(lp, '_host', lp)
            lo = _norm_select(view.expand(lp.iter.args[0], host))
            hi = _norm_select(view.expand(lp.iter.args[1], host))
            norm = Norm()
            try:
                rlo, rhi = _ref_window(norm, size_expr, idx)
                got_lo, got_hi = norm.visit(lo), norm.visit(hi)
            except Unsupported as e:
                raise AnalysisError('%s: window bounds not recognisable: %s' % (f.where, e))
            d_hi = got_hi.diff_const(rhi)
            ctx.check('R-CAND/range', f, 'range %d upper' % (i + 1), d_hi is not None and d_hi >= 1,
                      'the size loop ends at `%s`: it must include the upper bound (range(lo, hi + 1)); found offset %s'
                      % (U(lp.iter.args[1])[:60], d_hi), lp, sample='upper = window upper %+d' % (d_hi if d_hi is not None else 0))
            d_lo = got_lo.diff_const(rlo)
            ctx.check('R-CAND/range', f, 'range %d lower' % (i + 1), d_lo is not None and d_lo <= 0,
                      'the size loop starts at `%s`, not at max(get_size_lower_bound(probe size), index min length) '
                      '(offset %s)' % (U(lo)[:100], d_lo), lp, sample='lower = window lower %+d' % (d_lo if d_lo is not None else 0))


# --------------------------------------------------------------------------- prune guard

def _split_minmax(f, only=None):
    """case-split min/max of two arguments inside comparison literals"""
    if f in (TRUE, FALSE):
        return f
    if f[0] in ('and', 'or'):
        parts = [_split_minmax(x, only) for x in f[1]]
        return f_and(*parts) if f[0] == 'and' else f_or(*parts)
    _, e, pol = f
    for n in ast.walk(e):
        if isinstance(n, ast.Call) and isinstance(n.func, ast.Name) and n.func.id in ('min', 'max') and len(n.args) == 2 \
                and (only is None or only(n)):
            a, b = n.args

            class R(ast.NodeTransformer):
                def __init__(s, repl):
                    s.repl = repl

                def visit_Call(s, c):
                    if c is n:
                        return s.repl
                    return s.generic_visit(c)
            import copy
            e2 = copy.deepcopy(e)
            # locate the copied node by position
            target = [x for x in ast.walk(e2) if isinstance(x, ast.Call) and U(x) == U(n)][0]

            def repl(with_):
                class RR(ast.NodeTransformer):
                    def visit_Call(s, c):
                        if c is target:
                            return with_
                        return s.generic_visit(c)
                return RR().visit(copy.deepcopy(e2)) if False else _replace(e2, target, with_)
            first_small = to_formula(ast.Compare(left=a, ops=[ast.LtE()], comparators=[b]))
            pick_a, pick_b = (a, b) if n.func.id == 'min' else (b, a)
            fa = _split_minmax(('lit', _replace(e2, target, pick_a), pol), only)
            fb = _split_minmax(('lit', _replace(e2, target, pick_b), pol), only)
            return f_or(f_and(first_small, fa), f_and(f_not(first_small), fb))
    return f


def _replace(root, target, with_):
    import copy

    class RR(ast.NodeTransformer):
        def visit_Call(s, c):
            if c is target:
                return copy.deepcopy(with_)
            return s.generic_visit(c)
    r2 = copy.deepcopy(root)
    # deepcopy loses identity: find by text (first occurrence)
    tgt_txt = U(target)

    class R3(ast.NodeTransformer):
        done = False

        def visit_Call(s, c):
            if not s.done and U(c) == tgt_txt:
                s.done = True
                return copy.deepcopy(with_)
            return s.generic_visit(c)
    return R3().visit(r2)


def check_prune(ctx):
    repo = ctx.repo
    path = FILTERS['PositionFilter'][0]
    f = repo.fn(path, 'PositionFilter.find_candidates')
    view = view_of(f)
    cfg = view.cfg
    probe_p, idx_p = f.params[1], f.params[2]
    res = list(_result_names(f))
    # inner loop: for cand, cand_pos in <idx>.probe(token)
    inner = [n for n in walk_own(f.node) if isinstance(n, ast.For) and isinstance(n.iter, ast.Call) and call_name(n.iter) == 'probe']
    if len(inner) != 1 or not isinstance(inner[0].target, ast.Tuple) or len(inner[0].target.elts) != 2:
        raise AnalysisError('%s: expected one loop `for cand, cand_pos in %s.probe(token)`' % (f.where, idx_p))
    lp = inner[0]
    cand, cpos = [e.id for e in lp.target.elts]
    outer = [l for l in _enclosing_loops(f, lp) if isinstance(l, ast.For)]
    if not outer:
        raise AnalysisError('%s: probe loop is not nested in the token loop' % f.where)
    # the probe position counter: the name advanced in the outer loop body
    counters = [n.target.id for n in outer[-1].body if isinstance(n, ast.AugAssign) and isinstance(n.target, ast.Name)]
    if not counters and isinstance(outer[-1].iter, ast.Call) and call_name(outer[-1].iter) == 'enumerate' \
            and isinstance(outer[-1].target, ast.Tuple) and isinstance(outer[-1].target.elts[0], ast.Name) \
            and len(outer[-1].iter.args) == 1:
        counters = [outer[-1].target.elts[0].id]      # for pos, token in enumerate(prefix tokens)
    if len(counters) != 1:
        raise AnalysisError('%s: expected one position counter advanced per probe token' % f.where)
    ppos = counters[0]
    stores = []
    for n in ast.walk(lp):
        if isinstance(n, ast.Assign) and len(n.targets) == 1 and isinstance(n.targets[0], ast.Subscript) \
                and isinstance(n.targets[0].value, ast.Name) and n.targets[0].value.id in res:
            stores.append(n)
    if len(stores) < 2:
        raise AnalysisError('%s: expected a keep-store and a prune-store on the candidate map' % f.where)
    head = cfg.node_of(lp)
    first = [s for s, lab in head.succ if lab == 'iter'][0]
    keep_paths, prune_paths, other = [], [], []
    cur_txt = None
    for st in stores:
        node = cfg.node_of(st)
        for p in enumerate_paths(cfg, first, {node.id}, stop={head.id}):
            ps = symexec(p + [])
            # value stored: evaluate st.value under the path env
            from ..paths import _sub
            val = view.expand(_sub(st.value, ps.env), lp, keep=(cand, cpos, ppos))
            conds = [(view.expand(e, lp, keep=(cand, cpos, ppos)), pol) for e, pol, _ in ps.conds]
            keyx = view.expand(_sub(st.targets[0].slice, ps.env), lp, keep=(cand, cpos, ppos))
            if U(keyx) != cand:
                ctx.check('R-CAND/prune', f, 'store key', False, 'candidate map is written at `%s`, not at the probed candidate' % U(keyx), st)
            (keep_paths if not (isinstance(val, ast.UnaryOp) or (isinstance(val, ast.Constant) and val.value == -1)) else prune_paths).append((val, conds, st))
    if not keep_paths or not prune_paths:
        raise AnalysisError('%s: keep/prune stores not recognisable' % f.where)
    # roles
    res_name = res[0]
    cur = '%s.get(%s, 0)' % (res_name, cand)
    pn = 'len(%s)' % probe_p
    cn = '%s.size_cache[%s]' % (idx_p, cand)
    norm_probe = Norm()
    lo_src = 'max(get_size_lower_bound(%s, self.sim_measure_type, self.threshold), %s.min_length)' % (pn, idx_p)
    hi_src = 'min(get_size_upper_bound(%s, self.sim_measure_type, self.threshold), %s.max_length)' % (pn, idx_p)
    # T: what the cache holds for cand's size
    tcache = None
    for n in walk_own(f.node):
        if isinstance(n, ast.Assign) and isinstance(n.targets[0], ast.Subscript) and isinstance(n.value, ast.Call) \
                and call_name(n.value) == 'get_overlap_threshold':
            tcache = n
    tname = None
    if tcache is None:
        for n in walk_own(f.node):
            if isinstance(n, ast.Assign) and isinstance(n.value, ast.DictComp) and isinstance(n.value.value, ast.Call) \
                    and call_name(n.value.value) == 'get_overlap_threshold' and isinstance(n.targets[0], ast.Name):
                tcache = n
                tv = view.expand(n.value.value, n, keep=tuple(x.id for x in ast.walk(n.value.generators[0].target) if isinstance(x, ast.Name)))
                tk = n.value.key
                tname = n.targets[0].id
    else:
        tv = view.expand(tcache.value, tcache)
        tk = tcache.targets[0].slice
        tname = U(tcache.targets[0].value)
    if tcache is None:
        raise AnalysisError('%s: overlap threshold cache fill not found' % f.where)
    a = tv.args
    ok_t = len(a) == 5 and isinstance(tk, ast.Name) and U(a[0]) == tk.id and U(a[1]) == pn \
        and U(a[2]) == 'self.sim_measure_type' and U(a[3]) == 'self.threshold' and U(a[4]) == 'self.tokenizer'
    ctx.check('R-CAND/threshold-cache', f, 'T[size]', ok_t,
              'required-overlap cache is filled with `%s` under key `%s`; expected get_overlap_threshold(size, len(probe), '
              'self.sim_measure_type, self.threshold, self.tokenizer) under key size' % (U(tv)[:120], U(tk)), tcache,
              sample='T[size] = get_overlap_threshold(size, len(probe_tokens), M, t, tok)')
    T = '%s[%s]' % (tname, cn)
    keep_ref = parse_expr('%s != -1 and %s <= %s and %s <= %s and %s + min(%s - %s, %s - %s) >= %s'
                          % (cur, lo_src, cn, cn, hi_src, cur, pn, ppos, cn, cpos, T))
    prune_ref = parse_expr('%s != -1 and %s <= %s and %s <= %s and %s + min(%s - %s, %s - %s) < %s'
                           % (cur, lo_src, cn, cn, hi_src, cur, pn, ppos, cn, cpos, T))

    def only_pos(call):
        return any(isinstance(x, ast.Name) and x.id in (cpos, ppos) for x in ast.walk(call))

    def as_formula(paths):
        alts = []
        for val, conds, st in paths:
            alts.append(f_and(*[to_formula(_norm_select(e), pol) for e, pol in conds if not (isinstance(e, ast.Call) and call_name(e) == '__iter__')]))
        return _split_minmax(f_or(*alts), only_pos)
    for name, paths, ref, want_val in (('keep', keep_paths, keep_ref, '%s + 1' % cur), ('prune', prune_paths, prune_ref, '-1')):
        impl = as_formula(paths)
        reff = _split_minmax(to_formula(ref), only_pos)
        uni = Universe(int_atoms=lambda a_: True)
        w = uni.equivalent(impl, reff)
        from ..guards import show_asg
        ctx.check('R-CAND/prune', f, '%s condition' % name, w is None,
                  'the %s-store on the candidate map runs under a condition that differs from the reference '
                  '(cur + min(probe_n - probe_pos, cand_n - cand_pos) %s T[cand_n] inside the size window); they disagree '
                  'when %s' % (name, '>=' if name == 'keep' else '<', show_asg(w) if w else ''), paths[0][2],
                  sample='%d path(s) to the %s-store equivalent to the reference' % (len(paths), name))
        vals = set(U(v) for v, _, _ in paths)
        norm = Norm()
        try:
            same = all(norm.visit(v) == norm.visit(parse_expr(want_val)) for v, _, _ in paths)
        except Unsupported:
            same = False
        ctx.check('R-CAND/prune', f, '%s value' % name, same,
                  'the %s-store writes %s, expected `%s`' % (name, sorted(vals), want_val), paths[0][2],
                  sample='%s-store writes %s' % (name, want_val))


def check_consume(ctx):
    repo = ctx.repo
    n = 0
    for path, qual in ((SET_SIM_JOIN, 'set_sim_join'), (FILTERS['PositionFilter'][0], '_filter_tables_split')):
        f = repo.fn(path, qual)
        view = view_of(f)
        loops = [x for x in walk_own(f.node) if isinstance(x, ast.For) and isinstance(x.target, ast.Tuple)
                 and 'find_candidates' in U(view.expand(x.iter, x))]
        if len(loops) != 1:
            raise AnalysisError('%s: candidate loop over find_candidates(..) items not found' % f.where)
        lp = loops[0]
        ov = lp.target.elts[1].id
        # the first test in the loop body guarding everything
        body = lp.body
        guards = [st for st in body if isinstance(st, ast.If)]
        ok = False
        if len(body) >= 1 and len(guards) == 1 and all(isinstance(st, ast.If) or isinstance(st, ast.Pass) for st in body) \
                and not guards[0].orelse:
            uni = Universe(int_atoms=lambda a_: True)
            w = uni.equivalent(to_formula(guards[0].test), to_formula(parse_expr('%s >= 1' % ov)))
            ok = w is None
        n += 1
        ctx.check('R-CAND/consume', f, 'overlap > 0', ok,
                  'position-filter candidates must be used exactly when their overlap count is > 0 (pruned ones are -1); '
                  'found `%s`' % (U(guards[0].test) if guards else U(body[0]).split('\n')[0])[:80], lp,
                  sample='if %s > 0' % ov)


def check_size_counts(ctx):
    """the size filter compares token COUNTS: every size it posts, probes with or bounds is len(<tokenizer>.tokenize(x))
    of the value itself - the same measure on the index side and the probe side (a count of distinct tokens on one
    side only files a value with repeated tokens under the wrong size)"""
    repo = ctx.repo
    spath, ipath, icls = FILTERS['SizeFilter']
    funcs = [repo.fn(ipath, icls + '.build'), repo.fn(spath, 'SizeFilter.filter_pair'), repo.fn(spath, '_filter_tables_split')]
    n = 0
    for f in funcs:
        view = view_of(f)
        for c in repo.calls_in(f):
            if not (isinstance(c.func, ast.Name) and c.func.id == 'len' and len(c.args) == 1):
                continue
            st = view.stmt_of(c)
            ax = view.expand(c.args[0], st)
            toks = [x for x in ast.walk(ax) if isinstance(x, ast.Call) and isinstance(x.func, ast.Attribute) and x.func.attr == 'tokenize']
            if not toks:
                continue
            n += 1
            ok = ax is toks[0] or U(ax) == U(toks[0])
            ctx.check('R-CAND/size-count', f, 'len(%s)' % U(c.args[0])[:40], ok,
                      'a size is taken as `len(%s)`, not as the number of tokens the tokenizer returned: the index side and the '
                      'probe side of the size filter no longer measure the same thing' % U(ax)[:80], c,
                      sample='len(tokenize(value))')
    ctx.floor('R-CAND/size-count', n, 4, 'token counts of the size filter')


def check_collect(ctx):
    """what the probe of the index yields reaches the result: SizeFilter adds every probed row, unconditionally;
    OverlapFilter counts every occurrence of a probed row (overlap = number of shared tokens), starting from 0"""
    repo = ctx.repo
    # ---- SizeFilter
    f = repo.fn(FILTERS['SizeFilter'][0], 'SizeFilter.find_candidates')
    view = view_of(f)
    rets = [n for n in walk_own(f.node) if isinstance(n, ast.Return) and isinstance(n.value, ast.Name)]
    final = f.node.body[-1]
    res = final.value.id if isinstance(final, ast.Return) and isinstance(final.value, ast.Name) else None
    loops = [n for n in walk_own(f.node) if isinstance(n, ast.For) and 'probe(' in U(n.iter)]
    ok = False
    why = 'the loop over size_index.probe(..) was not found'
    if len(loops) == 1 and res is not None:
        lp = loops[0]
        var = lp.target.id if isinstance(lp.target, ast.Name) else None
        adds = [st for st in lp.body if isinstance(st, ast.Expr) and isinstance(st.value, ast.Call)
                and isinstance(st.value.func, ast.Attribute) and st.value.func.attr in ('add', 'append')
                and U(st.value.func.value) == res and len(st.value.args) == 1 and U(st.value.args[0]) == var]
        ok = bool(adds)
        why = 'a row found under an admissible size is not added to the result `%s` on every path' % res
    elif res is not None:
        # candidates.update(size_index.probe(size)) / set comprehension forms
        ups = [c for c in repo.calls_in(f) if isinstance(c.func, ast.Attribute) and c.func.attr == 'update'
               and U(c.func.value) == res and c.args and 'probe(' in U(c.args[0])]
        comp = [n for n in ast.walk(f.node) if isinstance(n, (ast.SetComp, ast.ListComp)) and 'probe(' in U(n)
                and not any(g.ifs for g in n.generators)]
        ok = bool(ups) or bool(comp)
    ctx.check('R-CAND/collect', f, 'size candidates', ok, why, loops[0] if loops else f.node,
              sample='every row of an admissible size is a candidate')
    # ---- OverlapFilter
    g = repo.fn(FILTERS['OverlapFilter'][0], 'OverlapFilter.find_candidates')
    gv = view_of(g)
    final = g.node.body[-1]
    res = final.value.id if isinstance(final, ast.Return) and isinstance(final.value, ast.Name) else None
    stores = [n for n in walk_own(g.node) if isinstance(n, (ast.Assign, ast.AugAssign))
              and isinstance((n.targets[0] if isinstance(n, ast.Assign) else n.target), ast.Subscript)
              and U((n.targets[0] if isinstance(n, ast.Assign) else n.target).value) == res]
    ok = False
    why = 'the count store `%s[cand] = ...` was not found' % res
    if len(stores) == 1:
        st = stores[0]
        tgt = st.targets[0] if isinstance(st, ast.Assign) else st.target
        key = U(tgt.slice)
        loop = [n for n in walk_own(g.node) if isinstance(n, ast.For) and any(x is st for x in ast.walk(n)) and 'probe(' in U(n.iter)]
        in_probe_loop = bool(loop) and isinstance(loop[-1].target, ast.Name) and loop[-1].target.id == key
        if isinstance(st, ast.AugAssign):
            init = [d for d in gv.reaching(res, st) if d.value is not None]
            zero_default = any(isinstance(d.value, ast.Call) and U(d.value.func).endswith('defaultdict') and d.value.args
                               and U(d.value.args[0]) == 'int' for d in init) or \
                any(isinstance(d.value, ast.Call) and U(d.value.func).endswith('Counter') for d in init)
            ok = in_probe_loop and isinstance(st.op, ast.Add) and isinstance(st.value, ast.Constant) and st.value.value == 1 and zero_default
        else:
            try:
                norm = Norm()
                prev = [x for x in ast.walk(st.value) if isinstance(x, ast.Call) and isinstance(x.func, ast.Attribute)
                        and x.func.attr == 'get' and U(x.func.value) == res and len(x.args) == 2 and U(x.args[0]) == key]
                ok = in_probe_loop and len(prev) == 1 and isinstance(prev[0].args[1], ast.Constant) and prev[0].args[1].value == 0
                if ok:
                    d = (norm.visit(st.value) - norm.visit(prev[0])).as_const()
                    ok = d == 1
            except Unsupported:
                ok = False
        c = Conds(g.node, None).of(st)
        unconditional = not [1 for _, e, pol in literals(c) if 'probe' not in U(e) and 'index' not in U(e)]
        ok = ok and unconditional
        why = 'the overlap of a probed row is updated by `%s` (under `%s`); it must be counted up by exactly 1 from 0 for every ' \
              'shared token' % (U(st)[:70], show(c)[:60])
    ctx.check('R-CAND/collect', g, 'overlap count', ok, why, stores[0] if stores else g.node,
              sample='%s[cand] = %s.get(cand, 0) + 1' % (res, res))


def check_early_exits(ctx):
    """find_candidates may give up before the probe loop only for a reason that provably leaves no candidate: the index
    is empty, the probe has no tokens, (OverlapFilter) the probe has fewer tokens than the required overlap,
    (SizeFilter) the size window is empty. Any other early return loses candidates for some operator or input."""
    repo = ctx.repo
    n = 0
    for cls, (path, _, _) in sorted(FILTERS.items()):
        try:
            f = repo.fn(path, cls + '.find_candidates')
        except AnalysisError:
            continue
        if len(f.params) < 3:
            raise AnalysisError('%s: find_candidates(self, probe, index) expected' % f.where)
        probe, index = f.params[1], f.params[2]
        allowed = ['not %s.index' % index, 'len(%s.index) == 0' % index]
        if cls != 'SizeFilter':
            allowed += ['not %s' % probe, 'len(%s) == 0' % probe]
        if cls == 'OverlapFilter':
            allowed += ['len(%s) < self.overlap_size' % probe]
        if cls == 'SizeFilter':
            allowed += ['size_lower_bound > size_upper_bound', 'size_lower_bound > %s' % probe, 'size_upper_bound < %s' % probe]
        ref = f_or(*[to_formula(parse_expr(a)) for a in allowed])
        conds = Conds(f.node, None)
        rets = [x for x in walk_own(f.node) if isinstance(x, ast.Return)]
        final = f.node.body[-1] if f.node.body and isinstance(f.node.body[-1], ast.Return) else None
        if final is None:
            raise AnalysisError('%s: find_candidates does not end in a return' % f.where)
        for r in rets:
            if r is final:
                continue
            n += 1
            c = conds.of(r)
            w = Universe(int_atoms=lambda a: True).implies(c, ref)
            ctx.check('R-CAND/early-exit', f, 'return under %s' % show(c)[:60], w is None,
                      'find_candidates gives up under `%s` before probing the index; that is only safe when the index or the '
                      'probe is empty%s' % (show(c)[:120], ' or the probe has fewer tokens than overlap_size (for every '
                                            'operator the overlap must reach overlap_size)' if cls == 'OverlapFilter' else ''),
                      r, sample='early return under %s' % show(c)[:80])
    ctx.floor('R-CAND/early-exit', n, 4, 'early returns of find_candidates')


def check_probe_side(ctx):
    """every worker probes the index built over the LEFT table with the tokens (or token count) of the current RIGHT row"""
    from ..side import expr_side, sides
    repo = ctx.repo
    n = 0
    for f in repo.all_funcs():
        if f.module.relpath.endswith('disk_edit_distance_join.py'):
            continue
        view = None
        for c in repo.calls_in(f):
            if not (isinstance(c.func, ast.Attribute) and c.func.attr == 'find_candidates' and len(c.args) == 2):
                continue
            view = view or view_of(f)
            st = view.stmt_of(c)
            n += 1
            probe, index = c.args
            px = view.expand(probe, st)
            ok = expr_side(probe) == 'R' or (expr_side(probe) is None and expr_side(px) == 'R')
            ctx.check('R-CAND/probe-side', f, 'probe of %s' % U(c.func)[:40], ok,
                      'the index is probed with `%s` (= %s): it must be probed with the tokens of the current right row'
                      % (U(probe)[:50], U(px)[:80]), c, sample='probe %s' % U(probe)[:40])
            ix = view.expand(index, st)
            l, r = sides(ix)
            # the index object: built from the left table only
            ctor = [x for x in ast.walk(ix) if isinstance(x, ast.Call) and isinstance(x.func, ast.Name) and x.func.id.endswith('Index')]
            oki = bool(ctor) and all(expr_side(x.args[0]) == 'L' for x in ctor if x.args)
            ctx.check('R-CAND/probe-side', f, 'index of %s' % U(c.func)[:40], oki,
                      'the probed index `%s` is not built over the left table (%s)' % (U(index)[:40], U(ix)[:100]), c,
                      sample='index %s over the left table' % U(index)[:40])
            # ... and it has been built: a `<index>.build(..)` call dominates the probe
            if isinstance(index, ast.Name):
                builds = [b for b in repo.calls_in(f) if isinstance(b.func, ast.Attribute) and b.func.attr == 'build'
                          and isinstance(b.func.value, ast.Name) and b.func.value.id == index.id]
                okb = any(view.dominates(view.stmt_of(b), st) for b in builds)
                ctx.check('R-CAND/probe-side', f, 'build of %s' % index.id, okb,
                          'the index `%s` is probed but `%s.build(..)` does not run on every path before the probe: an empty '
                          'index yields no candidates at all' % (index.id, index.id), c, sample='%s.build(..) dominates the probe' % index.id)
    ctx.floor('R-CAND/probe-side', n, 7, 'find_candidates call sites')


def check_probe_skip(ctx):
    """inside the loop over the right rows nothing steps over the probe: the only `continue` / `break` / `return`
    that may run before `find_candidates` for a row is the one closing the allow_empty branch (whose exact form is
    R-EMPTY's business). Any other skip - a length test, a cache hit, a 'cannot match anyway' shortcut - removes the
    row from the probe for some tokenizer (padding!) or operator."""
    repo = ctx.repo
    n = 0
    for f in repo.all_funcs():
        if f.module.relpath.endswith('disk_edit_distance_join.py'):
            continue
        for c in repo.calls_in(f):
            if not (isinstance(c.func, ast.Attribute) and c.func.attr == 'find_candidates' and len(c.args) == 2):
                continue
            view = view_of(f)
            st = view.stmt_of(c)
            loops = _enclosing_loops(f, st)
            if not loops:
                continue
            loop = loops[-1]
            n += 1

            def rec(stmts, guards):
                for s_ in stmts:
                    if s_.lineno >= st.lineno:
                        return
                    if isinstance(s_, (ast.Continue, ast.Break, ast.Return)):
                        ok = any('allow_empty' in U(g) or 'allow_empty' in U(view.expand(g, gi)) for g, gi in guards)
                        # a probe without tokens yields no candidate from a prefix/position/overlap index (the early
                        # exits of find_candidates say so): stepping over it is no loss. Not so for the size index,
                        # whose probe is a count and whose window at 0 is not empty.
                        if not ok and 'size' not in U(c.func).lower():
                            pa = U(c.args[0])
                            empties = ('not %s' % pa, 'len(%s) == 0' % pa, '%s == []' % pa, 'not len(%s)' % pa)
                            ok = any(U(g) in empties for g, _ in guards)
                        ctx.check('R-CAND/probe-skip', f, '%s before the probe' % type(s_).__name__.lower(), ok,
                                  'inside the loop over the probe rows a `%s` under `%s` runs before `%s`: the row is never '
                                  'probed although no allow_empty branch consumed it (a string shorter than q still has '
                                  'padded q-grams; a row is never too short/long to be probed - the size window decides)'
                                  % (type(s_).__name__.lower(), ' and '.join(U(g)[:50] for g, _ in guards) or 'no guard',
                                     U(c.func)[:40]), s_, sample='%s under the allow_empty branch' % type(s_).__name__.lower())
                    elif isinstance(s_, ast.If):
                        rec(s_.body, guards + [(s_.test, s_)])
                        rec(s_.orelse, guards + [(ast.UnaryOp(op=ast.Not(), operand=s_.test), s_)])
                    elif isinstance(s_, (ast.With, ast.Try)):
                        rec(s_.body, guards)
            rec(loop.body, [])
            # ... and the loop runs over the probe rows it was given: a conditional replacement of the iterated table
            # (`if <shortcut>: rtable = []`) steps over every row at once - the allow_empty pairs included
            it = loop.iter
            if isinstance(it, ast.Name):
                for a_ in walk_own(f.node):
                    if isinstance(a_, ast.Assign) and any(isinstance(t, ast.Name) and t.id == it.id for t in a_.targets) \
                            and a_.lineno < loop.lineno and not any(isinstance(x, ast.Name) and x.id == it.id for x in ast.walk(a_.value)):
                        cond = Conds(f.node, None).of(a_)
                        uncond = cond is TRUE or show(cond) in ('True', 'true', '')
                        ctx.check('R-CAND/probe-skip', f, 'probe rows replaced', uncond,
                                  'the rows the probe loop iterates over (`%s`) are replaced by `%s` under `%s` before the loop: for '
                                  'those inputs no right row is probed and no allow_empty pair is emitted'
                                  % (it.id, U(a_.value)[:40], show(cond)[:80]), a_, sample='`%s` not replaced conditionally' % it.id)
    ctx.floor('R-CAND/probe-skip', n, 7, 'probe loops around find_candidates')


def run(ctx, slices=True, unique=True, provenance=True, window=True, prune=True, consume=True, probe=True, early=True, sizes=False, collect=None):
    ctx.group('R-CAND')
    if probe:
        check_probe_side(ctx)
        check_probe_skip(ctx)
    if early:
        check_early_exits(ctx)
    if collect if collect is not None else early:
        check_collect(ctx)
    if sizes:
        check_size_counts(ctx)
    if slices:
        check_slices(ctx)
    if unique:
        check_unique(ctx)
    if provenance:
        check_provenance(ctx)
    if window:
        check_window(ctx)
    if prune:
        check_prune(ctx)
    if consume:
        check_consume(ctx)
