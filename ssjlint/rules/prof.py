"""R-PROF, R-DIV: the profiler reports exact counts and decides its comments from them (C17, C15).

counts   'Unique values' derives from len(<column>.unique()), 'Missing values' from sum(isnull(<column>)) of
         the attribute being profiled; the percentage shown next to a count is round(count/num_rows*100, 2)
         of that same count, num_rows = len(input_table);
taint    no value that has passed through round() flows into a branch test (the comment predicates depend
         only on the exact counts);
comments the key recommendation is assigned exactly when unique == num_rows and missing == 0, the warning
         exactly when missing > 0;
layout   one output tuple (attr, unique stat, missing stat, comments) per attribute (R-ONCE), header in that
         order, indexed by 'Attribute'; profile_attrs None means all columns;
R-DIV    a division whose denominator derives from len(<input table>) is dominated by a non-zero test."""
import ast

from .. import AnalysisError
from ..flow import view_of, untag
from ..guards import Conds, Universe, to_formula, show, literals
from ..model import U
from ..symx import Norm, Unsupported
from .common import PROFILER, GENERIC, call_name, walk_own, parse_expr


def _inline_helpers(repo, f, e, view, st, depth=2):
    """expand e through reaching defs and through calls of same-module helper functions that simply return an
    expression (possibly after early returns)"""
    x = view.expand(e, st)
    return x


def _rounded_taint(repo, f, e):
    """does expression e contain round() or a call to a repo helper whose return value passes through round()?"""
    for n in ast.walk(e):
        if isinstance(n, ast.Call):
            if isinstance(n.func, ast.Name) and n.func.id == 'round':
                return 'round(..)'
            r = repo.resolve_call(f, n)
            if r is not None:
                callee = r[0]
                for x in ast.walk(callee.node):
                    if isinstance(x, ast.Return) and x.value is not None:
                        cv = view_of(callee)
                        rx = cv.expand(x.value, x)
                        if any(isinstance(y, ast.Call) and isinstance(y.func, ast.Name) and y.func.id == 'round' for y in ast.walk(rx)):
                            return '%s() returns a rounded value' % callee.name
    return None


def _append_loops(f):
    return [n for n in f.node.body if isinstance(n, ast.For) and any(
        isinstance(c, ast.Call) and call_name(c) == 'append' for c in ast.walk(n))]


def _fold_tuples(e):
    """(a,) + (b, c) -> (a, b, c)"""
    if isinstance(e, ast.BinOp) and isinstance(e.op, ast.Add):
        l, r = _fold_tuples(e.left), _fold_tuples(e.right)
        if isinstance(l, ast.Tuple) and isinstance(r, ast.Tuple):
            return ast.Tuple(elts=list(l.elts) + list(r.elts), ctx=ast.Load())
    return e


def run(ctx, div=True):
    ctx.group('R-PROF')
    repo = ctx.repo
    f = repo.fn(PROFILER, 'profile_table_for_join')
    if not _append_loops(f):
        # one row per attribute built by a comprehension and/or a per-column helper returning the cells:
        # analyse the equivalent append loop (see normalise.py)
        from ..normalise import normalise_function
        from ..model import Repo

        def tuple_helper(nm):
            h = [n for n in f.module.tree.body if isinstance(n, ast.FunctionDef) and n.name == nm]
            return bool(h) and any(isinstance(x, ast.Return) and isinstance(x.value, ast.Tuple) for x in ast.walk(h[0]))
        src, done = normalise_function(f.module.tree, f.name, only=tuple_helper)
        if src is not None:
            srcs = dict(repo.sources)
            srcs[PROFILER] = src
            try:
                repo = Repo(srcs)
            except AnalysisError:
                repo = ctx.repo
            f = repo.fn(PROFILER, 'profile_table_for_join')
            ctx.counts['R-PROF/normalised'] = len(done)
    view0 = view_of(f)

    class _V(object):
        """expansion without version tags (`attr` is bound by two loops in this function)"""
        def expand(s, e, st, **k):
            return untag(view0.expand(e, st, **k))

        def __getattr__(s, a):
            return getattr(view0, a)
    view = _V()
    tbl = f.params[0]
    loops = _append_loops(f)
    if len(loops) != 1:
        raise AnalysisError('%s: attribute loop not found' % f.where)
    lp = loops[0]
    attr = lp.target.id
    apps = [n for n in ast.walk(lp) if isinstance(n, ast.Expr) and isinstance(n.value, ast.Call) and call_name(n.value) == 'append']
    if len(apps) != 1:
        raise AnalysisError('%s: expected one append of a 4-tuple per attribute' % f.where)
    ap = apps[0]
    row = ap.value.args[0]
    if not isinstance(row, ast.Tuple):
        row = _fold_tuples(view.expand(row, ap))
    if not isinstance(row, ast.Tuple) or len(row.elts) != 4:
        raise AnalysisError('%s: expected one append of a 4-tuple per attribute' % f.where)
    cells = row.elts
    col = '%s[%s]' % (tbl, attr)
    # ---- counts
    uq_ref = 'len(%s.unique())' % col
    ms_ref = 'sum(pd.isnull(%s))' % col
    ms_alt = ('sum(%s.isnull())' % col, '%s.isnull().sum()' % col, 'pd.isnull(%s).sum()' % col)
    stats = []
    for i, (label, ref, alts) in enumerate((('Unique values', uq_ref, ()), ('Missing values', ms_ref, ms_alt))):
        cell = view.expand(cells[1 + i], ap)
        # formatted statistic: _format_statistic(count, percent) or inline join
        cnt = pct = None
        if isinstance(cell, ast.Call) and call_name(cell) == '_format_statistic' and len(cell.args) == 2:
            cnt, pct = cell.args
        elif isinstance(cell, ast.Call) and isinstance(cell.func, ast.Attribute) and cell.func.attr == 'format' \
                and isinstance(cell.func.value, ast.Constant) and len(cell.args) == 2 and not cell.keywords:
            cnt, pct = cell.args                       # '{0} ({1}%)'.format(count, percent)
            if '{1}' in cell.func.value.value and cell.func.value.value.index('{1}') < cell.func.value.value.find('{0}') >= 0:
                cnt, pct = pct, cnt
        elif isinstance(cell, ast.BinOp) and isinstance(cell.op, ast.Mod) and isinstance(cell.left, ast.Constant) \
                and isinstance(cell.right, ast.Tuple) and len(cell.right.elts) == 2:
            cnt, pct = cell.right.elts                 # '%s (%s%%)' % (count, percent)
        elif isinstance(cell, ast.JoinedStr) and len([v for v in cell.values if isinstance(v, ast.FormattedValue)]) == 2:
            cnt, pct = [v.value for v in cell.values if isinstance(v, ast.FormattedValue)]
        else:
            # the formatting helper inlined: '<count> (<percent>%)' built from two str(..) pieces
            strs = [c_ for c_ in ast.walk(cell) if isinstance(c_, ast.Call) and isinstance(c_.func, ast.Name) and c_.func.id == 'str'
                    and len(c_.args) == 1]
            strs.sort(key=lambda c_: (getattr(c_, 'lineno', 0), getattr(c_, 'col_offset', 0)))
            top = [c_ for c_ in strs if not any(c_ is not o and any(x is c_ for x in ast.walk(o)) for o in strs)]
            if len(top) == 2:
                cnt, pct = top[0].args[0], top[1].args[0]
        ok = cnt is not None and (U(cnt) == ref or U(cnt) in alts)
        ctx.check('R-PROF/count', f, label, ok,
                  "'%s' shows `%s`, expected %s of the profiled attribute" % (label, U(cnt)[:80] if cnt is not None else U(cell)[:80], ref), ap,
                  sample='%s = %s' % (label, U(cnt) if cnt is not None else '?'))
        okp = False
        if pct is not None and cnt is not None:
            px = pct
            # through the percentage helper
            if isinstance(px, ast.Call):
                r = repo.resolve_call(f, px)
                if r is not None:
                    callee, _, b = r
                    cv = view_of(callee)
                    rets = [x for x in walk_own(callee.node) if isinstance(x, ast.Return)]
                    main = [x for x in rets if any(isinstance(y, ast.Call) and call_name(y) == 'round' for y in ast.walk(x.value))]
                    if len(main) == 1:
                        from .common import subst_names
                        px = subst_names(cv.expand(main[0].value, main[0]), {p: a for p, a in b.items()})
                        px = view.expand(px, ap)
            if isinstance(px, ast.IfExp):
                # the helper inlined as `0.0 if num_rows == 0 else round(..)`: the guarded arm carries the value
                arms = [a for a in (px.body, px.orelse) if any(isinstance(y, ast.Call) and call_name(y) == 'round' for y in ast.walk(a))]
                if len(arms) == 1:
                    px = arms[0]
            if isinstance(px, ast.Call) and call_name(px) == 'round' and len(px.args) == 2 and isinstance(px.args[1], ast.Constant) \
                    and px.args[1].value == 2:
                try:
                    norm = Norm()
                    want = norm.visit(parse_expr('(%s) / len(%s) * 100' % (U(cnt), tbl)))
                    okp = norm.visit(px.args[0]) == want
                except Unsupported:
                    okp = False
        ctx.check('R-PROF/percent', f, label, okp,
                  "the percentage next to '%s' is `%s`, expected round(count / len(%s) * 100, 2) of the same count"
                  % (label, U(pct)[:80] if pct is not None else '?', tbl), ap, sample='round(count/num_rows*100, 2)')
        stats.append(U(cnt) if cnt is not None else None)
    ok0 = U(view.expand(cells[0], ap)) == attr
    ctx.check('R-PROF/layout', f, 'attribute cell', ok0, 'first cell is `%s`, not the attribute name' % U(cells[0]), ap,
              sample='(attr, unique, missing, comments)')
    # header / index
    hdr = None
    for n in walk_own(f.node):
        if isinstance(n, ast.Call) and U(n.func) in ('pd.DataFrame', 'DataFrame'):
            for k in n.keywords:
                if k.arg == 'columns':
                    hdr = view.expand(k.value, view.stmt_of(n))
    okh = isinstance(hdr, ast.List) and [getattr(e, 'value', None) for e in hdr.elts] == ['Attribute', 'Unique values', 'Missing values', 'Comments']
    rets = [n for n in walk_own(f.node) if isinstance(n, ast.Return)]
    oki = len(rets) == 1 and isinstance(rets[0].value, ast.Call) and call_name(rets[0].value) == 'set_index' \
        and rets[0].value.args and isinstance(rets[0].value.args[0], ast.Constant) and rets[0].value.args[0].value == 'Attribute'
    ctx.check('R-PROF/layout', f, 'header', okh and oki,
              "the result must have columns ['Attribute','Unique values','Missing values','Comments'] indexed by 'Attribute'",
              rets[0] if rets else f.node, sample='header + set_index(Attribute)')
    # profile_attrs None -> all columns
    it = lp.iter
    okn = False
    if isinstance(it, ast.Name):
        ds = view.reaching(it.id, lp)
        vals = [U(d.value) for d in ds if d.value is not None]
        okn = any('%s.columns' % tbl in v for v in vals)
    ctx.check('R-PROF/layout', f, 'default attributes', okn, 'profile_attrs=None does not profile every column', lp,
              sample='list(input_table.columns.values)')
    # ---- taint: no rounded value in a branch test
    n_tests = 0
    for n in ast.walk(lp):
        if isinstance(n, (ast.If, ast.IfExp, ast.While)):
            n_tests += 1
            st = view.stmt_of(n.test) if isinstance(n, ast.IfExp) else n
            tx = view.expand(n.test, st)
            t = _rounded_taint(repo, f, tx)
            ctx.check('R-PROF/taint', f, 'test `%s`' % U(n.test)[:50], t is None,
                      'the branch test `%s` depends on a rounded value (%s): on large tables 100.0%% / 0.0%% do not mean '
                      'all / none' % (U(n.test)[:60], t), n, sample='%s -> %s' % (U(n.test)[:40], U(tx)[:60]))
    ctx.floor('R-PROF/taint', n_tests, 2, 'comment predicates')
    # positive fixture for the taint rule
    fx = ast.parse('round(a / b * 100, 2) > 0', mode='eval').body
    if _rounded_taint(repo, f, fx) is None:
        raise AnalysisError('R-PROF/taint cannot see its positive fixture')
    # ---- comment predicates
    conds = Conds(f.node, lambda e, st: view.expand(e, st))
    cstores = [n for n in ast.walk(lp) if isinstance(n, ast.Assign) and isinstance(n.targets[0], ast.Name)
               and isinstance(cells[3], ast.Name) and cells[3].id == n.targets[0].id]
    key_st = [n for n in cstores if isinstance(n.value, ast.Constant) and isinstance(n.value.value, str) and 'key' in n.value.value]
    warn_st = [n for n in cstores if 'ignore' in U(n.value)]
    uqx, msx = stats
    # ---- "neither message otherwise": the comment is (re)assigned on every path of THIS iteration before it is
    # appended; otherwise a plain attribute inherits the comment of the attribute profiled before it
    if isinstance(cells[3], ast.Name):
        cname = cells[3].id

        def definitely(stmts):
            for st_ in stmts:
                if any(x is cells[3] for x in ast.walk(st_)):
                    return False
                if isinstance(st_, (ast.Assign, ast.AnnAssign)) and any(
                        isinstance(t, ast.Name) and t.id == cname
                        for t in (st_.targets if isinstance(st_, ast.Assign) else [st_.target])):
                    return True
                if isinstance(st_, ast.If) and st_.orelse and definitely(st_.body) and definitely(st_.orelse):
                    return True
                if isinstance(st_, (ast.With, ast.Try)) and definitely(st_.body):
                    return True
            return False
        ok = definitely(lp.body)
        ctx.check('R-PROF/comment', f, 'comment reset per attribute', ok,
                  'the comment cell `%s` is not assigned on every path of one loop iteration before the row is appended: an '
                  'attribute with duplicates and no missing value inherits the comment of the attribute profiled before it '
                  '(or the value set before the loop)' % cname, lp, sample='`%s` assigned in every iteration' % cname)
    if len(key_st) == 1 and len(warn_st) == 1 and uqx and msx:
        inner = lambda c: c     # noqa
        kc = conds.of(key_st[0])
        wc = conds.of(warn_st[0])
        kref = to_formula(parse_expr('%s == len(%s) and %s == 0' % (uqx, tbl, msx)))
        wref = to_formula(parse_expr('%s >= 1' % msx))
        ints = lambda a: True   # noqa
        w1 = Universe(int_atoms=ints).equivalent(kc, kref)
        w2 = Universe(int_atoms=ints).equivalent(wc, wref)
        from ..guards import show_asg
        ctx.check('R-PROF/comment', f, 'key recommendation', w1 is None,
                  'the key recommendation is made under `%s`, must be exactly: all values distinct and none missing'
                  % show(kc)[:120], key_st[0], sample=show(kc)[:100])
        ctx.check('R-PROF/comment', f, 'missing warning', w2 is None,
                  'the ignored-rows warning is made under `%s`, must be exactly: at least one missing value' % show(wc)[:120],
                  warn_st[0], sample=show(wc)[:100])
    else:
        raise AnalysisError('%s: comment assignments not recognisable' % f.where)
    if div:
        check_div(ctx)


def check_div(ctx):
    ctx.group('R-DIV')
    repo = ctx.repo
    n = 0
    for f in repo.all_funcs():
        if f.module.relpath != PROFILER:
            continue
        view = view_of(f)
        conds = None
        for x in walk_own(f.node):
            if isinstance(x, ast.BinOp) and isinstance(x.op, (ast.Div, ast.FloorDiv, ast.Mod)):
                if isinstance(x.op, ast.Mod) and (isinstance(x.left, (ast.Constant, ast.JoinedStr)) and not isinstance(getattr(x.left, 'value', None), (int, float))
                                                  or isinstance(x.right, ast.Tuple)):
                    continue          # '%s (%s%%)' % (..): string formatting, not a remainder
                den = x.right
                st = view.stmt_of(x)
                dx = view.expand(den, st)
                names = [y.id for y in ast.walk(dx) if isinstance(y, ast.Name)]
                derives = ('len(' in U(dx) and any(p in names for p in f.params)) or any(p in names for p in f.params)
                if not derives:
                    continue
                n += 1
                conds = conds or Conds(f.node, None)
                c = conds.of(st)
                # the denominator (without float()) is non-zero under the path condition
                core = den
                while isinstance(core, ast.Call) and isinstance(core.func, ast.Name) and core.func.id in ('float', 'int') and core.args:
                    core = core.args[0]
                w = Universe(int_atoms=lambda a: True).implies(c, to_formula(parse_expr('%s != 0' % U(core))))
                ctx.check('R-DIV/guarded', f, 'divide by %s' % U(core), w is None,
                          '`%s` divides by `%s`, which is 0 for an empty table; no dominating test excludes that '
                          '(path condition: %s)' % (U(x)[:60], U(core), show(c)[:80]), x,
                          sample='%s under %s' % (U(x)[:40], show(c)[:60]))
    ctx.floor('R-DIV', n, 1, 'divisions by a row count')
    # positive fixture
    from ..model import ModInfo, FuncInfo
    m = ModInfo('fx', 'fx.py', 'def g(t):\n    n = len(t)\n    return 1.0 / n\n')
    fx = FuncInfo(m, m.tree.body[0])
    c = Conds(fx.node, None).of(fx.node.body[1])
    if Universe(int_atoms=lambda a: True).implies(c, to_formula(parse_expr('n != 0'))) is None:
        raise AnalysisError('R-DIV cannot see its positive fixture')
