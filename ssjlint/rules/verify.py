"""R-VERIFY / R-OPMAP / R-NI: what is compared is what is emitted, in the right order.

For every row-emitting worker, every acyclic path of the innermost loop body that reaches a row
append is executed symbolically. On such a path either
  * the comparator `COMP_OP_MAP[<comp_op>](score, threshold)` was taken true, its operator key is
    the comp_op parameter / filter attribute, its second argument is the threshold, its first
    argument is the similarity of the candidate's left value and the current right value computed
    by the measure the join names (rounded to 4 decimals exactly where C02 says so), and the score
    cell appended to the row is that same expression; or
  * the path is one of the two documented exemptions: the empty-set branch (score literal 1.0 under
    `allow_empty and <no right tokens>`) or the matcher's missing-value branch (NaN under
    allow_missing and isnull).
R-OPMAP: COMP_OP_MAP is exactly the six documented operators; get_sim_function maps each measure
name to the py_stringmatching class of that name. R-NI: comp_op reaches only validators,
COMP_OP_MAP subscripts and same-named parameters - never pruning code."""
import ast

from .. import AnalysisError
from ..flow import view_of, untag
from ..guards import Conds, Universe, to_formula, f_and, outcomes, show
from ..model import U
from ..paths import enumerate_paths, symexec, loop_body_paths
from ..side import expr_side
from ..symx import Norm, Unsupported
from .common import (P, GENERIC, SIMFUN, MATCHER, SET_SIM_JOIN, JOINS, call_name, walk_own, expander, parse_expr)

WORKERS = [
    (SET_SIM_JOIN, 'set_sim_join', 'set'),
    (P + 'join/overlap_coefficient_join_py.py', '_overlap_coefficient_join_split', 'oc'),
    (P + 'join/edit_distance_join_py.py', '_edit_distance_join_split', 'edit'),
    (P + 'filter/overlap_filter.py', '_filter_tables_split', 'count'),
    (MATCHER, '_apply_matcher_split', 'matcher'),
]

EXPECT_OPS = {'>=': 'ge', '>': 'gt', '<=': 'le', '<': 'lt', '=': 'eq', '!=': 'ne'}
SIM_CLASSES = {'COSINE': ('Cosine', 'cosine'), 'DICE': ('Dice', 'dice'), 'EDIT_DISTANCE': ('Levenshtein', 'levenshtein'),
               'JACCARD': ('Jaccard', 'jaccard'), 'OVERLAP_COEFFICIENT': ('OverlapCoefficient', 'overlap_coefficient')}


# --------------------------------------------------------------------------- R-OPMAP

def check_opmap(ctx):
    ctx.group('R-OPMAP')
    repo = ctx.repo
    m = repo.mod(GENERIC)
    d = m.globals.get('COMP_OP_MAP')
    if not isinstance(d, ast.Dict):
        raise AnalysisError('COMP_OP_MAP is not a dict literal in %s' % GENERIC)
    found = {}
    for k, v in zip(d.keys, d.values):
        if not (isinstance(k, ast.Constant) and isinstance(k.value, str)):
            raise AnalysisError('COMP_OP_MAP has a non-literal key')
        found[k.value] = U(v)

    class _F(object):
        qual = 'COMP_OP_MAP'
        where = GENERIC + ':COMP_OP_MAP'

        @staticmethod
        def loc(node=None):
            return '%s:%d' % (GENERIC, getattr(node, 'lineno', d.lineno))
    for op, fn in sorted(EXPECT_OPS.items()):
        got = found.get(op)
        ok = got in ('operator.' + fn, fn)
        ctx.check('R-OPMAP/entry', _F, op, ok,
                  "COMP_OP_MAP['%s'] is %s, expected operator.%s" % (op, got, fn), d, sample='%s -> %s' % (op, got))
    extra = sorted(set(found) - set(EXPECT_OPS))
    ctx.check('R-OPMAP/keys', _F, 'no extra keys', not extra, 'COMP_OP_MAP has undocumented operators %s' % extra, d)
    # the operator module is the stdlib one
    imp = m.imports.get('operator')
    ctx.check('R-OPMAP/module', _F, 'operator', imp == ('mod', 'operator'),
              '`operator` in generic_helper is not the stdlib operator module: %r' % (imp,), d, nontrivial=False)
    # no other module rebinds or mutates COMP_OP_MAP
    for f in repo.all_funcs():
        for n in walk_own(f.node):
            tgt = None
            if isinstance(n, (ast.Assign, ast.AugAssign, ast.Delete)):
                ts = n.targets if not isinstance(n, ast.AugAssign) else [n.target]
                for t in ts:
                    base = t
                    while isinstance(base, (ast.Subscript, ast.Attribute)):
                        base = base.value
                    if isinstance(base, ast.Name) and base.id == 'COMP_OP_MAP':
                        tgt = U(t)
            if isinstance(n, ast.Call) and isinstance(n.func, ast.Attribute) and isinstance(n.func.value, ast.Name) \
                    and n.func.value.id == 'COMP_OP_MAP' and n.func.attr in ('update', 'pop', 'clear', 'setdefault', 'popitem', '__setitem__'):
                tgt = U(n)
            if tgt:
                ctx.check('R-OPMAP/frozen', f, tgt, False, '`%s` changes the operator table at run time' % tgt, n)


def check_sim_functions(ctx):
    repo = ctx.repo
    f = repo.fn(SIMFUN, 'get_sim_function')
    view = view_of(f)
    ex = expander(view)
    conds = Conds(f.node, ex)
    outs = outcomes(f.node, conds, ex, kinds=(ast.Return,))
    uni = Universe()
    for o in outs:
        uni.note(o.cond)
    mkey = 'enum:sim_measure_type'
    measures = sorted(SIM_CLASSES) + ['OVERLAP']
    if mkey not in uni.vars:
        table = _table_driven(repo, f)
        if table is None:
            raise AnalysisError('%s: no case split on sim_measure_type' % f.where)
        for m in measures:
            e = table.get(m)
            _check_sim_entry(ctx, repo, f, m, e, f.node)
        _check_overlap_fn(ctx, repo)
        return
    uni.vars[mkey]['values'] |= set(measures)
    for m in measures:
        hit = [o for o in outs if uni.eval(o.cond, {mkey: m})] if all(uni.vars_of(o.cond) <= {mkey} for o in outs) else None
        if hit is None:
            raise AnalysisError('%s: measure table depends on more than the measure name' % f.where)
        if not hit:
            ctx.check('R-VERIFY/sim-table', f, m, False, 'get_sim_function has no branch for %s' % m, f.node)
            continue
        _check_sim_entry(ctx, repo, f, m, hit[0].stmt.value, hit[0].stmt)
    _check_overlap_fn(ctx, repo)


def _check_sim_entry(ctx, repo, f, m, e, where):
    if e is None:
        ctx.check('R-VERIFY/sim-table', f, m, False, 'get_sim_function has no entry for %s' % m, where)
        return
    if m == 'OVERLAP':
        r = repo.lookup_name(f.module, e.id) if isinstance(e, ast.Name) else None
        ok = getattr(r, 'name', None) == 'overlap'
        got = U(e)
    else:
        cls, modname = SIM_CLASSES[m]
        ok = False
        got = U(e)
        if isinstance(e, ast.Attribute) and e.attr == 'get_raw_score' and isinstance(e.value, ast.Call) \
                and isinstance(e.value.func, ast.Name) and not e.value.args and not e.value.keywords:
            imp = f.module.imports.get(e.value.func.id)
            ok = imp is not None and imp[0] == 'obj' and imp[2] == cls and imp[1].endswith('similarity_measure.' + modname)
            got = '%s from %s' % (imp[2], imp[1]) if imp else got
    ctx.check('R-VERIFY/sim-table', f, m, ok,
              'get_sim_function(%r) returns `%s`, not the %s measure' % (m, got, m), where,
              sample='%s -> %s' % (m, got))


def _table_driven(repo, f):
    """get_sim_function written as a loop over a module-level table of (name, class) pairs: unroll it.
    -> {measure: returned expression} or None"""
    import copy
    loops = [n for n in f.node.body if isinstance(n, ast.For)]
    if len(loops) != 1 or not isinstance(loops[0].iter, ast.Name) or not isinstance(loops[0].target, ast.Tuple):
        return None
    lp = loops[0]
    tbl = f.module.globals.get(lp.iter.id)
    if not isinstance(tbl, (ast.Tuple, ast.List)):
        return None
    names = [x.id for x in lp.target.elts if isinstance(x, ast.Name)]
    if len(names) != len(lp.target.elts):
        return None
    out = {}

    def run_block(stmts, env, m):
        for st in stmts:
            if isinstance(st, ast.If):
                t = subst_consts(st.test, env)
                v = const_truth(t, m)
                if v is None:
                    return 'UNKNOWN'
                r = run_block(st.body if v else st.orelse, env, m)
                if r is not None:
                    return r
            elif isinstance(st, ast.Return):
                return subst_consts(st.value, env)
            else:
                return 'UNKNOWN'
        return None

    def subst_consts(e, env):
        class T(ast.NodeTransformer):
            def visit_Name(s, n):
                if n.id in env:
                    return copy.deepcopy(env[n.id])
                return n
        return T().visit(copy.deepcopy(e))

    def const_truth(t, m):
        if isinstance(t, ast.Compare) and len(t.ops) == 1:
            l, r, op = t.left, t.comparators[0], t.ops[0]
            if isinstance(op, (ast.Eq, ast.NotEq)):
                for a, b in ((l, r), (r, l)):
                    if isinstance(a, ast.Name) and a.id == 'sim_measure_type' and isinstance(b, ast.Constant):
                        return (b.value == m) == isinstance(op, ast.Eq)
            if isinstance(op, (ast.Is, ast.IsNot)) and isinstance(r, ast.Constant) and r.value is None:
                isnone = isinstance(l, ast.Constant) and l.value is None
                if isinstance(l, (ast.Constant, ast.Name)):
                    return isnone == isinstance(op, ast.Is)
        return None
    for m in sorted(SIM_CLASSES) + ['OVERLAP']:
        for row in tbl.elts:
            if not isinstance(row, (ast.Tuple, ast.List)) or len(row.elts) != len(names):
                return None
            env = dict(zip(names, row.elts))
            r = run_block(lp.body, env, m)
            if r == 'UNKNOWN':
                return None
            if r is not None:
                out[m] = r
                break
    return out


def _check_overlap_fn(ctx, repo):
    # overlap(): size of the intersection of the two token sets
    ov = repo.fn(SIMFUN, 'overlap')
    rets = [n for n in walk_own(ov.node) if isinstance(n, ast.Return)]
    ok = len(rets) == 1 and isinstance(rets[0].value, ast.Call) and call_name(rets[0].value) == 'len' \
        and isinstance(rets[0].value.args[0], (ast.Call, ast.BinOp))
    if ok:
        inter = rets[0].value.args[0]
        if isinstance(inter, ast.Call) and call_name(inter) == 'intersection' and inter.args:
            a, b = inter.func.value, inter.args[0]
        elif isinstance(inter, ast.BinOp) and isinstance(inter.op, ast.BitAnd):
            a, b = inter.left, inter.right
        else:
            a = b = None
        if a is None:
            ok = False
        else:
            na = set(x.id for x in ast.walk(a) if isinstance(x, ast.Name)) & set(ov.params[:2])
            nb = set(x.id for x in ast.walk(b) if isinstance(x, ast.Name)) & set(ov.params[:2])
            ok = len(na) == 1 and len(nb) == 1 and na != nb
    ctx.check('R-VERIFY/sim-table', ov, 'overlap', ok,
              'overlap() does not return len(set1.intersection(set2)) of its two arguments', ov.node,
              sample='len(set1.intersection(set2))')


# --------------------------------------------------------------------------- R-VERIFY

def _is_comp_call(e):
    """COMP_OP_MAP[key](a, b) -> (key, a, b)"""
    if isinstance(e, ast.Call) and isinstance(e.func, ast.Subscript) and isinstance(e.func.value, ast.Name) \
            and e.func.value.id == 'COMP_OP_MAP' and len(e.args) == 2 and not e.keywords:
        return e.func.slice, e.args[0], e.args[1]
    return None


def _thresholdish(e, f):
    t = U(e)
    if t == 'threshold' and 'threshold' in f.params:
        return True
    if isinstance(e, ast.Attribute) and e.attr == 'overlap_size':
        return True
    return False


def _opkey_ok(e, f):
    if isinstance(e, ast.Name) and e.id == 'comp_op' and 'comp_op' in f.params:
        return True
    if isinstance(e, ast.Attribute) and e.attr == 'comp_op' and isinstance(e.value, ast.Name):
        return True
    return False


def _sinks(f):
    names = set()
    for n in ast.walk(f.node):
        if isinstance(n, ast.Call) and U(n.func) in ('pd.DataFrame', 'pandas.DataFrame', 'DataFrame') and n.args \
                and isinstance(n.args[0], ast.Name):
            names.add(n.args[0].id)
    out = []
    for n in walk_own(f.node):
        if isinstance(n, ast.Expr) and isinstance(n.value, ast.Call) and isinstance(n.value.func, ast.Attribute) \
                and n.value.func.attr == 'append' and isinstance(n.value.func.value, ast.Name) \
                and n.value.func.value.id in names and len(n.value.args) == 1:
            out.append(n)
    return out


def _innermost_loop(f, stmt):
    best = None

    def rec(stmts, cur):
        nonlocal best
        for st in stmts:
            if st is stmt:
                best = cur
                return
            for fld in ('body', 'orelse', 'finalbody', 'handlers'):
                sub = getattr(st, fld, None)
                if sub:
                    if fld == 'handlers':
                        for h in sub:
                            rec(h.body, cur)
                    else:
                        rec(sub, st if isinstance(st, (ast.For, ast.While)) and fld == 'body' else cur)
    rec(f.node.body, None)
    return best


def _check_score_expr(ctx, f, kind, key, score, loopvars, stmt, raw=None):
    """kind-specific shape of the compared similarity value"""
    cand = loopvars[0] if loopvars else None

    def mentions(e, name):
        return any(isinstance(n, ast.Name) and n.id == name for n in ast.walk(e))
    if kind == 'set':
        ok_round = isinstance(score, ast.Call) and call_name(score) == 'round' and len(score.args) == 2 \
            and isinstance(score.args[1], ast.Constant) and score.args[1].value == 4
        ctx.check('R-VERIFY/round', f, key, ok_round,
                  'the compared/emitted score is `%s`; Jaccard/cosine/Dice scores are compared and reported '
                  'rounded to exactly 4 decimals' % U(score)[:120], stmt, sample='round(sim, 4)')
        inner = score.args[0] if ok_round else score
        ok = isinstance(inner, ast.Call) and isinstance(inner.func, ast.Call) and call_name(inner.func) == 'get_sim_function' \
            and len(inner.args) == 2
        if ok:
            meas = inner.func.args[0] if inner.func.args else None
            ok = meas is not None and U(meas) == 'sim_measure_type'
            a, b = inner.args
            rinner = raw
            if isinstance(rinner, ast.Call) and call_name(rinner) == 'round' and rinner.args:
                rinner = rinner.args[0]
            ra, rb = (rinner.args if isinstance(rinner, ast.Call) and len(rinner.args) == 2 else (a, b))
            ok = ok and cand is not None and mentions(a, cand) and expr_side(ra) == 'L' and expr_side(rb) == 'R' \
                and "['cached_tokens'][%s]" % cand in U(a)
            if ok:
                # the token cache exists only when build() was asked to keep it
                builds = [x for x in ast.walk(a) if isinstance(x, ast.Call) and call_name(x) == 'build']
                okc = bool(builds)
                for x in builds:
                    kws = {k.arg: k.value for k in x.keywords}
                    v = kws.get('cache_tokens', x.args[1] if len(x.args) > 1 else None)
                    okc = okc and isinstance(v, ast.Constant) and v.value is True
                ctx.check('R-VERIFY/sim', f, key + ' token cache', okc,
                          'the left tokens are read from `cached_tokens` of an index built without cache_tokens=True: `%s`' % U(a)[:140],
                          stmt, sample='build(.., cache_tokens=True)')
        ctx.check('R-VERIFY/sim', f, key, ok,
                  'the score is not get_sim_function(sim_measure_type)(<left tokens of the candidate>, <right tokens of '
                  'the current row>): `%s`' % U(inner)[:160], stmt, sample=U(inner)[:120])
    elif kind == 'oc':
        from .cand import _norm_select
        score = _norm_select(score)
        has_round = any(isinstance(n, ast.Call) and call_name(n) == 'round' for n in ast.walk(score))
        ctx.check('R-VERIFY/round', f, key, not has_round,
                  'overlap-coefficient scores are reported unrounded, found `%s`' % U(score)[:100], stmt,
                  sample='unrounded')
        ok = False
        ov = loopvars[1] if len(loopvars) > 1 else None
        mins = [n for n in ast.walk(score) if isinstance(n, ast.Call) and call_name(n) == 'min']
        if ov and len(mins) == 1 and len(mins[0].args) == 2 and not has_round:
            a, b = mins[0].args
            try:
                norm = Norm()
                ref = norm.visit(parse_expr('%s / min(%s, %s)' % (ov, U(a), U(b))))
                same = norm.visit(score) == ref
            except Unsupported:
                same = False
            lefts = [x for x in (a, b) if 'size_cache' in U(x) and cand is not None and ('[%s]' % cand) in U(x)]
            rights = [x for x in (a, b) if x not in lefts and expr_side(x) == 'R']
            ok = same and len(lefts) == 1 and len(rights) == 1
            if ok:
                # the size cache exists only when the index was asked to keep it
                ctors = [x for x in ast.walk(lefts[0]) if isinstance(x, ast.Call) and call_name(x) == 'InvertedIndex']
                flag_ok = bool(ctors)
                for x in ctors:
                    kws = {k.arg: k.value for k in x.keywords}
                    v = kws.get('cache_size_flag', x.args[3] if len(x.args) > 3 else None)
                    flag_ok = flag_ok and isinstance(v, ast.Constant) and v.value is True
                ctx.check('R-VERIFY/sim', f, key + ' size cache', flag_ok,
                          'the left token count is read from `size_cache` of an index that was not built with '
                          'cache_size_flag=True: `%s`' % U(lefts[0])[:140], stmt, sample='InvertedIndex(.., cache_size_flag=True)')
        ctx.check('R-VERIFY/sim', f, key, ok,
                  'the score is not overlap / min(<right token count>, <left candidate token count>): `%s`'
                  % U(score)[:160], stmt, sample=U(score)[:120])
    elif kind == 'edit':
        has_round = any(isinstance(n, ast.Call) and call_name(n) == 'round' for n in ast.walk(score))
        ok = isinstance(score, ast.Call) and isinstance(score.func, ast.Call) and call_name(score.func) == 'get_sim_function' \
            and len(score.args) == 2 and score.func.args and isinstance(score.func.args[0], ast.Constant) \
            and score.func.args[0].value == 'EDIT_DISTANCE'
        if ok:
            a, b = score.args
            ok = cand is not None and mentions(a, cand) and expr_side(a) == 'L' and expr_side(b) == 'R' \
                and 'tokenize' not in U(a) and 'tokenize' not in U(b)
        ctx.check('R-VERIFY/sim', f, key, ok and not has_round,
                  "the distance is not get_sim_function('EDIT_DISTANCE')(<left string of the candidate>, <right string>)"
                  ': `%s`' % U(score)[:160], stmt, sample=U(score)[:120])
    elif kind == 'count':
        ov = loopvars[1] if len(loopvars) > 1 else None
        ctx.check('R-VERIFY/sim', f, key, isinstance(score, ast.Name) and score.id == ov,
                  'the compared value is `%s`, not the overlap count delivered with the candidate' % U(score)[:80],
                  stmt, sample='overlap count of the candidate')
    elif kind == 'matcher':
        ok = isinstance(score, ast.Call) and isinstance(score.func, ast.Name) and score.func.id == 'sim_function' \
            and len(score.args) == 2 and not score.keywords
        if ok:
            a, b = score.args
            ok = expr_side(a) == 'L' and expr_side(b) == 'R'
        has_round = any(isinstance(n, ast.Call) and call_name(n) == 'round' for n in ast.walk(score))
        ctx.check('R-VERIFY/sim', f, key, ok and not has_round,
                  'the score is not sim_function(<left value>, <right value>) as returned: `%s`' % U(score)[:160], stmt,
                  sample=U(score)[:120])


def _index_tables(repo, f, e):
    """first constructor argument of every repo Index object constructed inside expression e"""
    out = []
    for n in ast.walk(e):
        if isinstance(n, ast.Call) and isinstance(n.func, ast.Name):
            r = repo.lookup_name(f.module, n.func.id)
            if hasattr(r, 'methods') and r.module.relpath.startswith(P + 'index/') and n.args:
                out.append(U(n.args[0]))
    return out


def _check_candidate_row(ctx, f, view, key, loop, loopvars, ps, fin, sink):
    """R-WIRE 3 at the verification site: candidate ids index the table the index was built on, and the
    emitted left row is that table's row."""
    repo = ctx.repo
    cand = loopvars[0] if loopvars else None
    it = fin(loop.iter) if isinstance(loop, ast.For) else None
    if it is None or cand is None:
        return
    tables = sorted(set(_index_tables(repo, f, it)))
    lrows = []
    # every `<table>[cand]` on the path (helper arguments, literal rows): a row selected by the candidate id
    exprs = [call for call, st in ps.events] + list(ps.env.values())
    for e in exprs:
        for n in ast.walk(e):
            if isinstance(n, ast.Subscript) and isinstance(n.slice, ast.Name) and n.slice.id == cand:
                x = fin(n)
                if isinstance(x, ast.Subscript) and isinstance(x.value, ast.Name) and x.value.id in f.params:
                    lrows.append(x)
    if f.qual == '_apply_matcher_split':
        return
    ok = len(tables) == 1 and bool(lrows) and all(U(r) == '%s[%s]' % (tables[0], cand) for r in lrows)
    ctx.check('R-VERIFY/candidate-row', f, key, ok,
              'candidate ids come from an index over %s but the emitted left row is %s: row ids and rows must belong '
              'to one array' % (tables or '?', sorted(set(U(r) for r in lrows)) or '?'), sink,
              sample='index over %s, row %s' % (tables, sorted(set(U(r) for r in lrows))))


def check_worker(ctx, path, qual, kind):
    repo = ctx.repo
    f = repo.fn(path, qual)
    view = view_of(f)
    cfg = view.cfg
    sinks = _sinks(f)
    if not sinks:
        raise AnalysisError('%s: no row append found' % f.where)
    n_comp_paths = 0
    seen_keys = {}
    conds_all = Conds(f.node, expander(view))
    for sink in sinks:
        loop = _innermost_loop(f, sink)
        if loop is None:
            raise AnalysisError('%s: row append outside any loop' % f.where)
        loopvars = [n.id for n in ast.walk(loop.target) if isinstance(n, ast.Name)] if isinstance(loop, ast.For) else []
        base = 'append in loop over %s' % (U(loop.iter) if isinstance(loop, ast.For) else 'while')
        seen_keys[base] = seen_keys.get(base, 0) + 1
        key0 = '%s #%d' % (base, seen_keys[base])
        rowvar = sink.value.args[0].id if isinstance(sink.value.args[0], ast.Name) else None
        head = cfg.node_of(loop)
        first = [s for s, lab in head.succ if lab == 'iter'][0]
        sink_node = cfg.node_of(sink)
        plist = enumerate_paths(cfg, first, {sink_node.id}, stop={head.id})
        if not plist:
            raise AnalysisError('%s: %s unreachable' % (f.where, key0))
        verdicts = {'comp': 0, 'empty': 0, 'missing': 0}
        from ..guards import literals as _lits
        outer_texts = [(U(e), pol) for _, e, pol in _lits(conds_all.of(loop))]
        fail = None
        done_shape = False
        for p in plist:
            ps = symexec(p)

            def fin(e):
                return view.expand(e, loop, keep=tuple(loopvars))
            comp = None
            lits = []
            for e, pol, st in ps.conds:
                # decompose the test (not / and / or / chains) so that `if not comp(..): continue` and
                # `if comp(..):` give the same literal with the same polarity
                if any(isinstance(x, ast.IfExp) for x in ast.walk(e)):
                    from .cand import _norm_select
                    e = _norm_select(e)     # `a if a <= b else b` is min(a, b), not a branch
                fm = to_formula(e, pol)
                parts = [fm] if fm[0] != 'and' else fm[1]
                for part in parts:
                    if part[0] != 'lit':
                        lits.append((fin(e), pol))
                        continue
                    _, atom, apol = part
                    e2 = fin(atom)
                    cc = _is_comp_call(e2)
                    if cc is not None and apol:
                        comp = (cc, st, atom)
                    lits.append((e2, apol))
            # score appended on this path (if any)
            score_cells = []
            for call, st in ps.events:
                if isinstance(call.func, ast.Attribute) and call.func.attr == 'append' and rowvar is not None \
                        and U(call.func.value).startswith('get_output_row') is False and len(call.args) == 1:
                    # append to the row variable: after substitution the receiver is the row expression
                    if st is not sink and isinstance(st, ast.Expr) and isinstance(st.value.func, ast.Attribute) \
                            and isinstance(st.value.func.value, ast.Name) and st.value.func.value.id == rowvar:
                        score_cells.append(fin(call.args[0]))
            if comp is not None:
                n_comp_paths += 1
                verdicts['comp'] += 1
                (opkey, a0, a1), cst, raw = comp
                raw_a0 = raw.args[0] if isinstance(raw, ast.Call) and len(raw.args) == 2 else a0
                if not done_shape:
                    done_shape = True
                    ctx.check('R-VERIFY/operator', f, key0, _opkey_ok(opkey, f),
                              'the comparison operator is looked up with `%s`, not with the comp_op the caller asked for'
                              % U(opkey), cst, sample='COMP_OP_MAP[%s]' % U(opkey))
                    ctx.check('R-VERIFY/arg-order', f, key0, _thresholdish(a1, f) and not _thresholdish(a0, f),
                              'comparator is called as (%s, %s); it must be (score, threshold) - the operators are not '
                              'symmetric' % (U(a0)[:60], U(a1)[:60]), cst,
                              sample='(%s, %s)' % (U(a0)[:50], U(a1)[:40]))
                    _check_score_expr(ctx, f, kind, key0, a0, loopvars, cst, raw_a0)
                    _check_candidate_row(ctx, f, view, key0, loop, loopvars, ps, fin, sink)
                for sc in score_cells:
                    from .cand import _norm_select as _ns
                    if U(_ns(sc)) != U(_ns(a0)) and fail is None:
                        fail = ('R-VERIFY/score-cell', 'the score appended to the row is `%s` but the value compared '
                                'against the threshold is `%s`' % (U(sc)[:100], U(a0)[:100]))
                if len(score_cells) > 1 and fail is None:
                    fail = ('R-VERIFY/score-cell', 'more than one value appended after the projected attributes')
                continue
            # no comparator on this path: documented exemptions only
            texts = [(U(e), pol) for e, pol in lits] + outer_texts
            is_empty = any(pol and 'allow_empty' in t for t, pol in texts) and \
                any(pol and ('len(' in t and '== 0' in t) for t, pol in texts)
            is_missing = any(pol and 'isnull' in t for t, pol in texts) and any(pol and t == 'allow_missing' for t, pol in texts)
            if is_empty and all(U(s) == '1.0' for s in score_cells):
                verdicts['empty'] += 1
            elif kind == 'matcher' and is_missing and all(U(s) in ('np.NaN', 'np.nan', "float('nan')") for s in score_cells):
                verdicts['missing'] += 1
            elif fail is None:
                conds_txt = ' and '.join(('%s' if pol else 'not(%s)') % t[:60] for t, pol in texts[-6:])
                fail = ('R-VERIFY/guarded', 'a row is emitted without passing the comparison (path: ... %s; score cells %s)'
                        % (conds_txt, [U(s)[:40] for s in score_cells]))
        ctx.check(fail[0] if fail else 'R-VERIFY/guarded', f, key0, fail is None, fail[1] if fail else '', sink,
                  sample='%d paths: %s' % (len(plist), verdicts))
    if n_comp_paths == 0:
        raise AnalysisError('%s: no path through a COMP_OP_MAP comparison reaches a row append' % f.where)
    return f


def check_edit_window(ctx):
    """C03: the length window in front of the Levenshtein call is |len(l) - len(r)| <= threshold, inclusive."""
    repo = ctx.repo
    path, qual, _ = WORKERS[2]
    f = repo.fn(path, qual)
    view = view_of(f)
    sinks = _sinks(f)
    conds = Conds(f.node, expander(view, keep=()))
    n = 0
    for sink in sinks:
        c = conds.of(sink)
        from ..guards import literals
        seen_txt = set()
        for _, e, pol in literals(c):
            cc = _is_comp_call(e)
            if cc is not None and U(e) not in seen_txt and 'get_sim_function' not in U(cc[1]):
                # the requested operator applied to something that is not the distance: pruning must not depend on
                # the operator (|len(l) - len(r)| = t does not follow from distance = t)
                seen_txt.add(U(e))
                n += 1
                ctx.check('R-VERIFY/length-window', f, 'operator on %s' % U(cc[1])[:40], False,
                          'the requested comparison operator is applied to `%s`, which is not the edit distance: a pair is '
                          'pruned by `%s` although only |len(l)-len(r)| <= threshold follows from a qualifying distance'
                          % (U(cc[1])[:80], U(e)[:100]), sink)
                continue
            if not isinstance(e, ast.Compare) or cc is not None or U(e) in seen_txt:
                continue
            seen_txt.add(U(e))
            names = [x.id.split('@')[0] for x in ast.walk(e) if isinstance(x, ast.Name)]
            if 'threshold' not in names:
                continue
            # identify the L and R length atoms by side
            parts = [e.left] + list(e.comparators)
            L = [p for p in parts if expr_side(p) == 'L']
            R = [p for p in parts if expr_side(p) == 'R']
            import re
            if len(L) == 1 and len(R) == 1:
                lt, rt = U(L[0]), U(R[0])
                # reference window over the same two length expressions, threshold stripped from each side
                lsym = re.sub(r'\s*[-+]\s*threshold', '', lt)
                rsym = re.sub(r'\s*[-+]\s*threshold', '', rt)
            else:
                # both lengths inside one operand (abs(l - r) <= threshold, l - r <= threshold, ...): the maximal
                # one-sided sub-expressions are the two lengths
                def atoms(x, out):
                    sd = expr_side(x)
                    if sd in ('L', 'R') and not isinstance(x, (ast.BinOp, ast.UnaryOp)):
                        out.append((sd, x))
                        return
                    for ch in ast.iter_child_nodes(x):
                        if isinstance(ch, ast.expr):
                            atoms(ch, out)
                found = []
                atoms(e, found)
                ls = sorted(set(U(x) for sd, x in found if sd == 'L'))
                rs = sorted(set(U(x) for sd, x in found if sd == 'R'))
                if len(ls) != 1 or len(rs) != 1:
                    continue
                lsym, rsym = ls[0], rs[0]
            n += 1
            ref = to_formula(parse_expr('(%s) - threshold <= (%s) <= (%s) + threshold' % (rsym, lsym, rsym)))
            uni = Universe()
            w = uni.implies(ref, ('lit', e, pol))
            ctx.check('R-VERIFY/length-window', f, 'window atom %d' % n, w is None,
                      'the length filter `%s` rejects pairs inside |len(l)-len(r)| <= threshold (e.g. %s): qualifying '
                      'pairs are lost' % (U(e)[:100], w), sink, sample=U(e)[:100])
    ctx.floor('R-VERIFY/length-window', n, 1, 'length-window comparisons')
    _check_length_cache(ctx, f, view)
    # threshold handed to the worker is int(floor(threshold))
    jpath, jqual, _, _ = JOINS['edit_distance']
    j = repo.fn(jpath, jqual)
    jv = view_of(j)
    for call in repo.calls_in(j):
        r = repo.resolve_call(j, call)
        if r is not None and r[0] is f:
            e = jv.expand(r[2]['threshold'], jv.stmt_of(call))
            ok = U(e) in ('int(floor(threshold))', 'int(math.floor(threshold))', 'floor(threshold)', 'math.floor(threshold)',
                          'int(threshold)')
            ctx.check('R-VERIFY/int-threshold', j, 'worker threshold%s' % ('/parallel' if isinstance(call.func, ast.Call) else ''),
                      ok, 'the worker receives threshold `%s`, not the integral floor of it' % U(e), call, sample=U(e))


def _check_length_cache(ctx, f, view):
    """the left lengths the window compares come from a list indexed by candidate id: it holds len(<left row>[<left join
    attribute index>]) for every row of the LEFT table, in table order"""
    lists = set()
    # a local list (never a parameter) that is read as <list>[<candidate id>] inside the candidate loop
    for lp_ in [n for n in walk_own(f.node) if isinstance(n, ast.For) and isinstance(n.target, ast.Name)]:
        for x in ast.walk(lp_):
            if isinstance(x, ast.Subscript) and isinstance(x.value, ast.Name) and isinstance(x.slice, ast.Name) \
                    and x.slice.id == lp_.target.id and x.value.id not in f.params and isinstance(x.ctx, ast.Load):
                ds = [d for d in view.defs if d.name == x.value.id and d.value is not None]
                if ds and all(isinstance(d.value, (ast.List, ast.ListComp)) for d in ds):
                    lists.add(x.value.id)
    for lst in sorted(lists):
        defs = [d for d in view.defs if d.name == lst and d.value is not None]
        ok = False
        why = 'the length list `%s` is not built from the left table' % lst
        comp = [d.value for d in defs if isinstance(d.value, ast.ListComp)]
        if comp:
            c = comp[0]
            g = c.generators[0]
            row = g.target.id if isinstance(g.target, ast.Name) else None
            it, elt = g.iter, c.elt
            flt = bool(g.ifs)
        else:
            loops = [n for n in walk_own(f.node) if isinstance(n, ast.For) and any(
                isinstance(x, ast.Call) and isinstance(x.func, ast.Attribute) and x.func.attr == 'append' and U(x.func.value) == lst
                for x in ast.walk(n))]
            if len(loops) != 1:
                ctx.check('R-VERIFY/length-cache', f, lst, False, why, f.node)
                continue
            lp = loops[0]
            row = lp.target.id if isinstance(lp.target, ast.Name) else None
            it = lp.iter
            apps = [x for x in ast.walk(lp) if isinstance(x, ast.Call) and isinstance(x.func, ast.Attribute) and x.func.attr == 'append'
                    and U(x.func.value) == lst]
            elt = apps[0].args[0] if apps and apps[0].args else None
            from ..guards import Conds, TRUE as _T
            flt = len(apps) != 1 or view.stmt_of(apps[0]) not in lp.body
        if row and elt is not None:
            ex = untag(view.expand(elt, view.stmt_of(elt) if not comp else defs[0].node))
            ok = expr_side(it) == 'L' and not flt and isinstance(ex, ast.Call) and call_name(ex) == 'len' and len(ex.args) == 1 \
                and isinstance(ex.args[0], ast.Subscript) and U(ex.args[0].value) == row and expr_side(ex.args[0].slice) == 'L' \
                and 'join_attr' in U(ex.args[0].slice)
            why = 'the length list `%s` holds `%s` for `%s` in `%s`; it must hold len(row[<left join attribute index>]) for every ' \
                  'row of the left table: the window is otherwise compared with the wrong length' % (lst, U(ex)[:60], row, U(it)[:40])
        ctx.check('R-VERIFY/length-cache', f, lst, ok, why, defs[0].node if defs else f.node,
                  sample='%s[i] = len(left row i [left join attribute])' % lst)
    ctx.floor('R-VERIFY/length-cache', len(lists), 1, 'length lists')


def check_ni(ctx):
    """R-NI: comp_op (and the comparator derived from it) never reaches pruning code."""
    ctx.group('R-NI')
    repo = ctx.repo
    n_uses = 0
    for f in repo.all_funcs():
        rel = f.module.relpath
        if (rel.endswith('_join.py') and not rel.endswith('set_sim_join.py')) or f.name.startswith('validate_comp_op'):
            continue     # thin public wrappers dispatching to *_py / *_cy; the operator validators themselves
        tainted = set()
        if 'comp_op' in f.params:
            tainted.add('comp_op')
        # comparator objects derived from COMP_OP_MAP[...]
        for n in walk_own(f.node):
            if isinstance(n, ast.Assign) and isinstance(n.value, ast.Subscript) and isinstance(n.value.value, ast.Name) \
                    and n.value.value.id == 'COMP_OP_MAP':
                for t in n.targets:
                    if isinstance(t, ast.Name):
                        tainted.add(t.id)
        uses = []
        parents = {}
        for n in ast.walk(f.node):
            for c in ast.iter_child_nodes(n):
                parents[id(c)] = n
        for n in walk_own(f.node):
            is_use = (isinstance(n, ast.Name) and isinstance(n.ctx, ast.Load) and n.id in tainted) or \
                (isinstance(n, ast.Attribute) and n.attr == 'comp_op' and isinstance(n.ctx, ast.Load))
            if not is_use:
                continue
            n_uses += 1
            par = parents.get(id(n))
            ok = False
            why = U(par)[:80] if par is not None else '?'
            if isinstance(par, ast.Subscript) and isinstance(par.value, ast.Name) and par.value.id == 'COMP_OP_MAP' and par.slice is n:
                ok = True
            elif isinstance(par, ast.Call) and par.func is n:
                ok = True        # calling the comparator
            elif isinstance(par, ast.Call):
                r = repo.resolve_call(f, par)
                if r is not None:
                    callee, _, bound = r
                    ps = [p for p, a in bound.items() if a is n]
                    ok = bool(ps) and (callee.name.startswith('validate_comp_op') or all(p == 'comp_op' for p in ps))
                elif call_name(par).endswith('_cy'):
                    ok = True
            elif isinstance(par, ast.Assign) and par.value is n and all(
                    isinstance(t, ast.Attribute) and t.attr == 'comp_op' and U(t.value) == 'self' for t in par.targets):
                ok = True
            elif isinstance(par, ast.keyword) and par.arg == 'comp_op':
                ok = True
            elif isinstance(par, (ast.Tuple, ast.List)) and isinstance(parents.get(id(par)), ast.Assign):
                # an argument pack: a tuple bound once and only ever splatted into calls; each such call must bind this
                # element to the callee's comp_op parameter
                asg = parents.get(id(par))
                nm = asg.targets[0].id if len(asg.targets) == 1 and isinstance(asg.targets[0], ast.Name) else None
                loads = [x for x in walk_own(f.node) if isinstance(x, ast.Name) and x.id == nm and isinstance(x.ctx, ast.Load)] if nm else []
                ok = bool(loads)
                for x in loads:
                    px = parents.get(id(x))
                    call = parents.get(id(px)) if isinstance(px, ast.Starred) else None
                    if not isinstance(call, ast.Call):
                        ok = False
                        break
                    r = repo.resolve_call(f, call)
                    if r is None:
                        ok = False
                        break
                    ps = [p_ for p_, a in r[2].items() if a is n]
                    if not (ps and all(p_ == 'comp_op' for p_ in ps)):
                        ok = False
                        break
            ctx.check('R-NI/flow', f, '%s in %s' % (U(n), why[:50]), ok,
                      'the comparison operator `%s` flows into `%s`: candidates/bounds may only depend on the threshold, '
                      'the operator is applied at verification' % (U(n), why), n, nontrivial=True,
                      sample='%s used in %s' % (U(n), why[:60]))
    ctx.floor('R-NI', n_uses, 30, 'uses of comp_op / comparator')
    # positive fixture
    fx = ast.parse("def g(comp_op, t):\n    idx = PositionIndex(t, comp_op)\n").body[0]
    hit = [n for n in ast.walk(fx) if isinstance(n, ast.Name) and n.id == 'comp_op' and isinstance(n.ctx, ast.Load)]
    if len(hit) != 1:
        raise AnalysisError('R-NI cannot see its positive fixture')


def run(ctx, kinds=None, opmap=True, ni=False, window=False, simtable=True):
    ctx.group('R-VERIFY')
    n = 0
    for path, qual, kind in WORKERS:
        if kinds is None or kind in kinds:
            check_worker(ctx, path, qual, kind)
            n += 1
    if simtable:
        check_sim_functions(ctx)
    if opmap:
        check_opmap(ctx)
    if window:
        check_edit_window(ctx)
    if ni:
        check_ni(ctx)
