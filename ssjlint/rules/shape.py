"""R-SHAPE: every emitted row has the header's layout, with cells from the right place.

For each row-building function the abstract interpreter (absrow) yields, per scenario of
None/empty/non-empty output-attribute lists and flags, the cell list of the header passed to
pd.DataFrame(.., columns=..) and the cell list of every row appended to the row list. They must
align cell by cell: `prefix + attr` over `row[columns.index(attr)]` of the same side, one header
name per projected attribute over one row element per attribute (same attribute list),
'_sim_score' over a score value, '_id' over the candidate's id.

Cross-frame: frames concatenated in a caller (worker result and missing-value pairs) have equal
abstract headers for the arguments actually passed.
_id: `X.insert(0, '_id', range(0, len(X)))` is the last thing done to the result on every path."""
import ast

from .. import AnalysisError
from ..absrow import explore, normalise, ListV, One, Many, Sym, Unknown, NoneV, ELT, NONE, EMPTY, NONEMPTY
from ..flow import view_of
from ..model import U
from ..side import expr_side, side_of_name
from .common import (P, FILTERS, JOINS, MISSING, MATCHER, SET_SIM_JOIN, GENERIC, call_name, walk_own)

INLINE = ('get_output_row_from_tables', 'get_output_header_from_tables', 'find_output_attribute_indices')

ROW_BUILDERS = [
    (SET_SIM_JOIN, 'set_sim_join'),
    (P + 'join/overlap_coefficient_join_py.py', '_overlap_coefficient_join_split'),
    (P + 'join/edit_distance_join_py.py', '_edit_distance_join_split'),
    (P + 'filter/size_filter.py', '_filter_tables_split'),
    (P + 'filter/prefix_filter.py', '_filter_tables_split'),
    (P + 'filter/position_filter.py', '_filter_tables_split'),
    (P + 'filter/suffix_filter.py', '_filter_tables_split'),
    (P + 'filter/overlap_filter.py', '_filter_tables_split'),
    (MISSING, 'get_pairs_with_missing_value'),
    (MATCHER, '_apply_matcher_split'),
]


# row append sites per builder as confirmed by reading the reference tree (a helper shared by two call sites counts
# once per call site): normal pairs + the admitted empty-empty pairs where the worker has that branch
MIN_SINKS = {
    (SET_SIM_JOIN, 'set_sim_join'): 2,
    (P + 'join/overlap_coefficient_join_py.py', '_overlap_coefficient_join_split'): 2,
    (P + 'join/edit_distance_join_py.py', '_edit_distance_join_split'): 1,
    (P + 'filter/size_filter.py', '_filter_tables_split'): 2,
    (P + 'filter/prefix_filter.py', '_filter_tables_split'): 2,
    (P + 'filter/position_filter.py', '_filter_tables_split'): 2,
    (P + 'filter/suffix_filter.py', '_filter_tables_split'): 2,
    (P + 'filter/overlap_filter.py', '_filter_tables_split'): 1,
    (MISSING, 'get_pairs_with_missing_value'): 2,
    (MATCHER, '_apply_matcher_split'): 1,
}


def scn_text(scn):
    return ', '.join('%s=%s' % (k, v) for k, v in sorted(scn.items())) or 'any'


def _sink_key(sink):
    loops = [lit[4:] for lit, _ in sink.path if lit.startswith('for ')]
    return 'append in ' + (' x '.join(l.split(' in ', 1)[1] for l in loops) or 'function body')


def _strip_score(e):
    return e


def _index_attr(idx):
    """idx == <cols>.index(<attr>)  ->  (cols expr, attr expr)"""
    if isinstance(idx, ast.Call) and isinstance(idx.func, ast.Attribute) and idx.func.attr == 'index' \
            and len(idx.args) == 1 and not idx.keywords:
        return idx.func.value, idx.args[0]
    return None


def align_cell(h, r):
    """-> (ok, message, kind, source text)"""
    if isinstance(h, One) != isinstance(r, One):
        return False, 'header has %r where the row has %r' % (h, r), None, None
    if isinstance(h, One):
        hv, rv = h.value, r.value
        if not isinstance(hv, Sym) or not isinstance(rv, Sym):
            return False, 'unrecognised cell: header %r / row %r' % (hv, rv), None, None
        he, re_ = hv.expr, rv.expr
    else:
        if h.base != r.base:
            return False, 'header repeats over `%s` but the row repeats over `%s`' % (h.base, r.base), None, None
        he, re_ = h.canon(), r.canon()
    if isinstance(he, ast.Constant) and isinstance(he.value, str):
        if he.value == '_sim_score':
            if isinstance(re_, ast.Subscript) and _index_attr(re_.slice) is not None:
                return False, "'_sim_score' column is filled from a table cell `%s`" % U(re_), None, None
            return True, '', 'SCORE', U(re_)
        if he.value == '_id':
            # the matcher carries the candidate's own _id along: the first column of the candidate row
            if isinstance(re_, ast.Subscript) and isinstance(re_.slice, ast.Constant) and 'candset' in U(re_.value) \
                    and re_.slice.value != 0:
                return False, "'_id' is taken from column %r of the candidate row, not from its first column" % re_.slice.value, None, None
            return True, '', 'ID', U(re_)
        return False, 'unexpected literal header cell %r' % he.value, None, None
    if isinstance(he, ast.BinOp) and isinstance(he.op, ast.Add):
        prefix, attr = he.left, he.right
        if not isinstance(re_, ast.Subscript):
            return False, 'column `%s` is filled from `%s`, not from a row element' % (U(he), U(re_)), None, None
        ia = _index_attr(re_.slice)
        if ia is None:
            return False, 'column `%s` is filled from `%s` whose index is not <columns>.index(<attribute>)' \
                % (U(he), U(re_)), None, None
        cols, attr2 = ia
        hs = expr_side(prefix)
        rs = expr_side(re_.value)
        cs = expr_side(cols)
        a_ok = U(attr) == U(attr2)
        if not a_ok:
            # the matcher's literal row takes the key from the candidate set's key column
            t1, t2 = U(attr), U(attr2)
            if 'candset' in t2 and 'key_attr' in t1 and 'key_attr' in t2 and side_of_name(t1) == side_of_name(t2) \
                    and 'candset' in U(cols) and 'candset' in U(re_.value):
                a_ok = True
                rs = cs = side_of_name(t2)
        if not a_ok:
            return False, 'column `%s` is filled with attribute `%s` (`%s`)' % (U(he), U(attr2), U(re_)), None, None
        if hs is None or rs is None or hs != rs or (cs is not None and cs != hs):
            return False, 'column `%s` (side %s) is filled from `%s` (row side %s, columns side %s)' \
                % (U(he), hs, U(re_), rs, cs), None, None
        return True, '', 'COL', U(re_)
    return False, 'unrecognised header cell `%s`' % U(he), None, None


def compare(header, row, scn):
    """-> (ok, message, [kinds])"""
    if not isinstance(header, ListV):
        raise AnalysisError('header value not recognisable: %r' % (header,))
    if not isinstance(row, ListV):
        raise AnalysisError('row value not recognisable: %r' % (row,))
    hc, rc = normalise(header, scn), normalise(row, scn)
    if len(hc) != len(rc):
        return False, 'row has %d cell groups %r but the header has %d %r' % (len(rc), rc, len(hc), hc), []
    kinds = []
    for i, (h, r) in enumerate(zip(hc, rc)):
        ok, msg, kind, src = align_cell(h, r)
        if not ok:
            return False, 'cell %d: %s' % (i, msg), kinds
        kinds.append((kind, src))
    return True, '', kinds


def check_builders(ctx):
    repo = ctx.repo
    n_sinks = 0
    layouts = {}
    for path, qual in ROW_BUILDERS:
        f = repo.fn(path, qual)
        runs = explore(repo, f, INLINE)
        per_sink = {}
        for scn, it, _ in runs:
            if len(it.frames) != 1 or it.frames[0].header is None:
                raise AnalysisError('%s: expected one pd.DataFrame(rows, columns=header) construction' % f.where)
            header = it.frames[0].header
            for stmt, fn, what in it.none_iter:
                ctx.check('R-SHAPE/none-iter', f, what, False,
                          'iterates `%s`, which is None in scenario {%s}' % (what, scn_text(scn)), stmt)
            for sk in it.sinks:
                ent = per_sink.setdefault((id(sk.stmt), getattr(sk, 'via', ())), {'sink': sk, 'fail': None, 'n': 0, 'kinds': None})
                ent['n'] += 1
                if isinstance(sk.row, Unknown) or isinstance(header, Unknown):
                    raise AnalysisError('%s: %s: layout not recognisable (%r / %r)' % (f.where, _sink_key(sk), sk.row, header))
                ok, msg, kinds = compare(header, sk.row, scn)
                if not ok and ent['fail'] is None:
                    ent['fail'] = 'under {%s}: %s' % (scn_text(scn), msg)
                if ok:
                    ent['kinds'] = kinds
        ordered = sorted(per_sink.values(), key=lambda e: e['sink'].stmt.lineno)
        seen_keys = {}
        for ent in ordered:
            k = _sink_key(ent['sink'])
            seen_keys[k] = seen_keys.get(k, 0) + 1
            key = '%s #%d' % (k, seen_keys[k])
            n_sinks += 1
            ctx.check('R-SHAPE/row-vs-header', f, key, ent['fail'] is None,
                      'row appended here does not match the DataFrame header %s' % (ent['fail'] or ''),
                      ent['sink'].stmt,
                      sample='%d scenarios; cells %s' % (ent['n'], [k_ for k_, _ in (ent['kinds'] or [])]))
            layouts[(f.where, key)] = ent
        if not per_sink:
            raise AnalysisError('%s: no row append found' % f.where)
        want = MIN_SINKS.get((path, qual))
        if want is not None and len(per_sink) < want:
            raise AnalysisError('%s: %d row append site(s) found, %d confirmed on the reference tree - a branch no longer '
                                'emits its rows, or the rule cannot see it' % (f.where, len(per_sink), want))
        ctx.counts['R-SHAPE/sinks/%s:%s' % (path.split('/')[-1], qual)] = len(per_sink)
    ctx.floor('R-SHAPE', n_sinks, 17, 'row append sites')
    return layouts


# --------------------------------------------------------------------------- cross-frame headers

def _header_for_call(repo, caller, view, call, callee, bound):
    args = {}
    st = view.stmt_of(call)
    for p, a in bound.items():
        if callee.defaults.get(p) is a:
            args[p] = NoneV() if (isinstance(a, ast.Constant) and a.value is None) else Sym(a)
        else:
            e = view.expand(a, st)
            args[p] = NoneV() if (isinstance(e, ast.Constant) and e.value is None) else Sym(e)
    runs = explore(repo, callee, INLINE, args=args)
    out = []
    for scn, it, _ in runs:
        if len(it.frames) != 1 or not isinstance(it.frames[0].header, ListV):
            raise AnalysisError('%s: header of %s not recognisable' % (caller.where, callee.qual))
        out.append((scn, it.frames[0].header))
    return out


def check_cross_frames(ctx):
    repo = ctx.repo
    n = 0
    for f in repo.all_funcs():
        if f.module.relpath.endswith('disk_edit_distance_join.py'):
            continue
        hcalls = [(c, r) for c in repo.calls_in(f) for r in [repo.resolve_call(f, c)]
                  if r is not None and r[0].name == 'get_pairs_with_missing_value']
        if not hcalls:
            continue
        view = view_of(f)
        # the worker(s) whose frames are concatenated with it: every resolved repo callee that builds a frame
        wcalls = []
        for c in repo.calls_in(f):
            r = repo.resolve_call(f, c)
            if r is not None and (r[0].module.relpath, r[0].qual) in ROW_BUILDERS and r[0].name != 'get_pairs_with_missing_value':
                wcalls.append((c, r))
        if not wcalls:
            raise AnalysisError('%s calls get_pairs_with_missing_value but no row-building worker' % f.where)
        for hc, hr in hcalls:
            hh = _header_for_call(repo, f, view, hc, hr[0], hr[2])
            for wc, wr in wcalls:
                wh = _header_for_call(repo, f, view, wc, wr[0], wr[2])
                bad = None
                pairs = 0
                for s1, h1 in hh:
                    for s2, h2 in wh:
                        if any(k in s2 and s2[k] != v for k, v in s1.items()):
                            continue
                        scn = dict(s1)
                        scn.update(s2)
                        pairs += 1
                        k1 = [c.key() for c in normalise(h1, scn)]
                        k2 = [c.key() for c in normalise(h2, scn)]
                        if k1 != k2 and bad is None:
                            bad = 'under {%s}: missing-pairs header %r vs %s header %r' % (
                                scn_text(scn), normalise(h1, scn), wr[0].qual, normalise(h2, scn))
                n += 1
                key = '%s+get_pairs_with_missing_value%s' % (wr[0].qual, '/parallel' if isinstance(wc.func, ast.Call) else '')
                ctx.check('R-SHAPE/cross-frame', f, key, bad is None,
                          'frames concatenated here have different columns %s' % (bad or ''), hc,
                          sample='%d scenario pairs compared' % pairs)
    ctx.floor('R-SHAPE/cross-frame', n, 20, 'worker/missing-pairs frame pairs')


# --------------------------------------------------------------------------- _id numbering

def check_id(ctx):
    repo = ctx.repo
    n = 0
    for f in repo.all_funcs():
        if f.module.relpath.endswith('disk_edit_distance_join.py'):
            continue
        ins = []
        for c in repo.calls_in(f):
            if call_name(c) == 'insert' and isinstance(c.func, ast.Attribute) and len(c.args) == 3 \
                    and isinstance(c.args[1], ast.Constant) and c.args[1].value == '_id':
                ins.append(c)
        if not ins:
            continue
        view = view_of(f)
        cfg = view.cfg
        for c in ins:
            n += 1
            x = U(c.func.value)
            st = view.stmt_of(c)
            pos_ok = isinstance(c.args[0], ast.Constant) and c.args[0].value == 0
            rng = c.args[2]
            rng_ok = isinstance(rng, ast.Call) and call_name(rng) in ('range', 'xrange') and (
                (len(rng.args) == 1 and U(rng.args[0]) == 'len(%s)' % x) or
                (len(rng.args) == 2 and isinstance(rng.args[0], ast.Constant) and rng.args[0].value == 0
                 and U(rng.args[1]) == 'len(%s)' % x))
            ctx.check('R-SHAPE/id-range', f, x, pos_ok and rng_ok,
                      "`_id` is not inserted at position 0 as range(0, len(%s)): `%s`" % (x, U(c)), c,
                      sample=U(c))
            node = cfg.node_of(st)
            # nothing redefines or grows X after the numbering
            later = cfg.reachable(node.id) - {node.id}
            bad = None
            for nid in later:
                a = cfg.nodes[nid].ast
                if a is None or cfg.nodes[nid].kind not in ('stmt',):
                    continue
                if isinstance(a, ast.Assign) and any(isinstance(t, ast.Name) and t.id == x for t in a.targets):
                    bad = a
                if isinstance(a, (ast.Assign, ast.Expr)) and isinstance(a.value, ast.Call) and call_name(a.value) in ('concat', 'append') \
                        and any(isinstance(z, ast.Name) and z.id == x for z in ast.walk(a.value)):
                    bad = a
            ctx.check('R-SHAPE/id-last', f, x, bad is None,
                      'the result is changed after `_id` was numbered (`%s`): ids would no longer be 0..n-1'
                      % (U(bad).split('\n')[0] if bad is not None else ''), bad if bad is not None else c,
                      sample='no definition of %s reachable after the numbering' % x)
            # every return of X passes the numbering
            rets = [nd for nd in cfg.nodes if nd.kind == 'return' and nd.ast.value is not None
                    and isinstance(nd.ast.value, ast.Name) and nd.ast.value.id == x]
            dom = view.dom
            ok = bool(rets) and all(node.id in dom.get(r.id, set()) for r in rets if r.id in dom)
            ctx.check('R-SHAPE/id-dominates', f, x, ok,
                      'a return of `%s` is reachable without the `_id` numbering' % x, c,
                      sample='%d return(s) dominated by the numbering' % len(rets))
    ctx.floor('R-SHAPE/id', n, 10, '_id numbering sites')


def run(ctx, builders=True, cross=True, ids=True):
    ctx.group('R-SHAPE')
    out = None
    if builders:
        out = check_builders(ctx)
    if cross:
        check_cross_frames(ctx)
    if ids:
        check_id(ctx)
    return out
