"""R-FLAG: tokenizer set/bag flag typestate of the six join functions.

An abstract interpretation of each `*_join_py` CFG over the finite state
(original mode g, current mode, constant-valued boolean locals) decides, for both values of g:
  F1/work   every call that (transitively) tokenizes runs in the mode the measure needs
            (set mode for the five set joins, bag mode for edit distance);
  F2/exit   the tokenizer is back in mode g at every normal exit;
  F3/raise  and at every exceptional exit: a call made while the mode differs from g may only
            contain `raise` statements whose guards are unsatisfiable given what the validators that
            already ran established (interprocedural: callee guards are rewritten over the caller's
            arguments through <= 4 call levels, constant-folded, and refuted as Boolean functions), or
            it sits in a try whose finally restores the mode;
  F4        nothing else in the package writes a tokenizer."""
import ast

from .. import AnalysisError
from ..flow import view_of
from ..fold import fold
from ..guards import Conds, Universe, f_and, f_not, f_or, TRUE, FALSE, show, literals
from ..model import U
from .common import JOINS, call_name, subst_names, walk_own

SETTER = 'set_return_set'
GETTER = 'get_return_set'
MAX_DEPTH = 4


# --------------------------------------------------------------------------- who tokenizes

def tokenizing_functions(repo):
    direct = set()
    edges = {}
    for f in repo.all_funcs():
        for c in repo.calls_in(f):
            if isinstance(c.func, ast.Attribute) and c.func.attr == 'tokenize':
                direct.add(f.where)
            # `series.apply(tokenizer.tokenize)`
            for a in list(c.args) + [k.value for k in c.keywords]:
                if isinstance(a, ast.Attribute) and a.attr == 'tokenize':
                    direct.add(f.where)
            for r in repo.resolve_call_all(f, c):
                if r is not None:
                    edges.setdefault(f.where, set()).add(r[0].where)
    tok = set(direct)
    changed = True
    while changed:
        changed = False
        for a, bs in edges.items():
            if a not in tok and bs & tok:
                tok.add(a)
                changed = True
    return tok


# --------------------------------------------------------------------------- raise guards

class RaiseAnalysis(object):
    def __init__(self, repo):
        self.repo = repo
        self.memo = {}

    def of_call(self, f, view, call, env):
        """Raise conditions of the repo callee(s) of `call` made in f (params of f substituted by env).
        -> list of (formula, description)"""
        out = []
        st = view.stmt_of(call)
        for r in self.repo.resolve_call_all(f, call):
            if r is None:
                continue
            callee, kind, bound = r
            env2 = {}
            for p, a in bound.items():
                if callee.defaults.get(p) is a:
                    env2[p] = a
                else:
                    env2[p] = fold(subst_names(view.expand(a, st), env))
            for cond, desc in self.of_func(callee, env2, MAX_DEPTH, ()):
                out.append((cond, desc))
        return out

    def of_func(self, f, env, depth, stack):
        key = (f.where, tuple(sorted((k, U(v)) for k, v in env.items())))
        if key in self.memo:
            return self.memo[key]
        if f.where in stack or depth < 0:
            return []
        view = view_of(f)

        def ex(e, st):
            return fold(subst_names(view.expand(e, st), env))
        conds = Conds(f.node, ex)
        out = []
        loop_free = not any(isinstance(x, (ast.For, ast.While, ast.Try)) for x in ast.walk(f.node))
        if loop_free:
            # path-sensitive: a guard held in a local that is assigned differently per branch is substituted per path
            from ..paths import enumerate_paths, symexec
            from ..guards import to_formula
            cfg = view.cfg
            rn = [n.id for n in cfg.nodes if n.kind == 'raise']
            ends = set(rn) | {cfg.exit.id} | set(n.id for n in cfg.nodes if n.kind == 'return')
            try:
                plist = enumerate_paths(cfg, cfg.entry.id, set(rn), stop=ends, limit=4000) if rn else []
            except AnalysisError:
                plist = None
            if plist is not None:
                for p in plist:
                    ps = symexec(p)
                    st = p[-1].node.ast
                    cond = f_and(*[to_formula(fold(subst_names(e, env)), pol) for e, pol, _ in ps.conds])
                    if cond == FALSE:
                        continue
                    exc = st.exc
                    name = U(exc.func) if isinstance(exc, ast.Call) else (U(exc) if exc is not None else 're-raise')
                    out.append((cond, '%s raises %s at %s' % (f.qual, name, f.loc(st))))
            else:
                loop_free = False
        if not loop_free:
            for st in conds.order:
                if isinstance(st, ast.Raise):
                    exc = st.exc
                    name = U(exc.func) if isinstance(exc, ast.Call) else (U(exc) if exc is not None else 're-raise')
                    out.append((conds.of(st), '%s raises %s at %s' % (f.qual, name, f.loc(st))))
        for call in self.repo.calls_in(f):
            rs = self.repo.resolve_call_all(f, call)
            if not rs:
                continue
            st = view.stmt_of(call)
            cc = conds.of(st)
            if cc == FALSE:
                continue
            for callee, kind, bound in rs:
                env2 = {}
                for p, a in bound.items():
                    env2[p] = a if callee.defaults.get(p) is a else ex(a, st)
                for cond, desc in self.of_func(callee, env2, depth - 1, stack + (f.where,)):
                    c2 = f_and(cc, cond)
                    if c2 != FALSE:
                        out.append((c2, '%s -> %s' % (f.qual, desc)))
        self.memo[key] = out
        return out


def refuted(facts, cond):
    """True iff `cond` is unsatisfiable given the conjunction of `facts` (list of formulas).
    Only facts sharing an atom with cond (transitively) are used - sound, since dropping
    conjuncts can only make refutation harder."""
    if cond == FALSE:
        return True
    uni = Universe()
    cv = uni.vars_of(cond)
    uni.note(cond)
    rel = []
    pool = [(f, None) for f in facts]
    vars_now = set(cv)
    changed = True
    fv = []
    for f in facts:
        uni.note(f)
        fv.append(uni.vars_of(f))
    used = [False] * len(facts)
    while changed:
        changed = False
        for i, f in enumerate(facts):
            if not used[i] and fv[i] & vars_now:
                used[i] = True
                if len(vars_now | fv[i]) <= 14:
                    rel.append(f)
                    vars_now |= fv[i]
                    changed = True
    whole = f_and(cond, *rel)
    return uni.satisfiable(whole) is None


# --------------------------------------------------------------------------- typestate

_SUMMARIES = {}


def flag_summary(ctx, callee, param):
    """What a helper that receives the tokenizer does to its mode: {mode in: set of (mode out, returned bool or None)}.
    None when the helper never writes the tokenizer."""
    key = (id(ctx.repo), callee.where, param)
    if key in _SUMMARIES:
        return _SUMMARIES[key]
    writes = any(isinstance(c, ast.Call) and isinstance(c.func, ast.Attribute) and c.func.attr == SETTER
                 and isinstance(c.func.value, ast.Name) and c.func.value.id == param for c in ast.walk(callee.node))
    if not writes:
        _SUMMARIES[key] = None
        return None
    tr = _Tracker(ctx, callee, None, set(), None, tok=param)
    tr.run(track_facts=False)
    summ = {True: set(), False: set()}
    for nd in tr.cfg.nodes:
        if nd.kind == 'return':
            for g, mode, loc in tr.seen.get(nd.id, set()):
                rv = tr.eval_test(nd.ast.value, mode, loc) if nd.ast.value is not None else None
                summ[g].add((mode, rv))
    # falling off the end
    ends = [p for p, _ in tr.cfg.exit.pred if tr.cfg.nodes[p].kind != 'return']
    for pid in ends:
        for g, mode, loc in tr.seen.get(tr.cfg.exit.id, set()):
            summ[g].add((mode, None))
    _SUMMARIES[key] = summ
    return summ


class _Tracker(object):
    def __init__(self, ctx, f, required, tok_funcs, ra, tok='tokenizer'):
        self.ctx, self.f, self.required = ctx, f, required
        self.repo = ctx.repo
        self.view = view_of(f)
        self.cfg = self.view.cfg
        self.tok_funcs = tok_funcs
        self.ra = ra
        self.tok = tok
        if self.tok not in f.params:
            raise AnalysisError('%s has no `%s` parameter' % (f.where, tok))
        # boolean locals assigned only True/False constants
        cand = {}
        for n in walk_own(f.node):
            if isinstance(n, ast.Assign) and len(n.targets) == 1 and isinstance(n.targets[0], ast.Name):
                ok = (isinstance(n.value, ast.Constant) and isinstance(n.value.value, bool)) or self._is_getter_expr(n.value) \
                    or self._helper_call(n.value) is not None
                cand.setdefault(n.targets[0].id, []).append(ok)
        self.bools = set(k for k, v in cand.items() if all(v) and k not in f.params)
        self._mayraise = {}

    def _is_tok(self, e):
        return isinstance(e, ast.Name) and e.id == self.tok

    def _helper_call(self, e):
        """e is a call of a repository helper that receives the tokenizer and writes its mode -> (summary, call)"""
        if not isinstance(e, ast.Call):
            return None
        r = self.repo.resolve_call(self.f, e)
        if r is None:
            return None
        callee, kind, bound = r
        for p_, a in bound.items():
            if self._is_tok(a):
                summ = flag_summary(self.ctx, callee, p_)
                if summ is not None:
                    return summ
        return None

    def _is_getter_expr(self, e):
        """tokenizer.get_return_set() possibly negated: a saved copy of the mode"""
        if isinstance(e, ast.UnaryOp) and isinstance(e.op, ast.Not):
            return self._is_getter_expr(e.operand)
        return isinstance(e, ast.Call) and isinstance(e.func, ast.Attribute) and e.func.attr == GETTER \
            and isinstance(e.func.value, ast.Name) and e.func.value.id == self.tok and not e.args

    def eval_test(self, t, mode, loc):
        if isinstance(t, ast.UnaryOp) and isinstance(t.op, ast.Not):
            v = self.eval_test(t.operand, mode, loc)
            return None if v is None else not v
        if isinstance(t, ast.BoolOp):
            vals = [self.eval_test(v, mode, loc) for v in t.values]
            if isinstance(t.op, ast.And):
                if any(v is False for v in vals):
                    return False
                return True if all(v is True for v in vals) else None
            if any(v is True for v in vals):
                return True
            return False if all(v is False for v in vals) else None
        if isinstance(t, ast.Call) and isinstance(t.func, ast.Attribute) and t.func.attr == GETTER and self._is_tok(t.func.value):
            return mode
        if isinstance(t, ast.Compare) and len(t.ops) == 1 and isinstance(t.comparators[0], ast.Constant) \
                and isinstance(t.comparators[0].value, bool) and isinstance(t.ops[0], (ast.Eq, ast.NotEq, ast.Is, ast.IsNot)):
            v = self.eval_test(t.left, mode, loc)
            if v is None:
                return None
            same = v == t.comparators[0].value
            return same if isinstance(t.ops[0], (ast.Eq, ast.Is)) else not same
        if isinstance(t, ast.Name) and t.id in self.bools:
            d = dict(loc)
            return d.get(t.id)
        if isinstance(t, ast.Constant) and isinstance(t.value, bool):
            return t.value
        return None

    def may_raise(self, node, facts_cache):
        """-> list of undischarged raise descriptions for the repo calls in CFG node `node`"""
        if node.id in self._mayraise:
            return self._mayraise[node.id]
        out = []
        st = node.ast
        parts = [st] if node.kind in ('stmt', 'return') else []
        if node.kind in ('test', 'loop'):
            parts = [st.test] if isinstance(st, (ast.If, ast.While)) else [st.iter]
        calls = [c for p in parts for c in ast.walk(p) if isinstance(c, ast.Call)]
        if calls:
            facts = self.facts_for(node, facts_cache)
            for c in calls:
                for cond, desc in self.ra.of_call(self.f, self.view, c, {}):
                    if not refuted(facts, cond):
                        out.append((desc, show(cond)))
        self._mayraise[node.id] = out
        return out

    def facts_for(self, node, cache):
        """negated raise guards of the repo calls in statements that dominate `node`"""
        if node.id in cache:
            return cache[node.id]
        facts = []
        dom = self.view.dom.get(node.id, set())
        for d in sorted(dom):
            if d == node.id:
                continue
            dn = self.cfg.nodes[d]
            if dn.kind != 'stmt' or dn.ast is None:
                continue
            for c in ast.walk(dn.ast):
                if isinstance(c, ast.Call):
                    for cond, _ in self.ra.of_call(self.f, self.view, c, {}):
                        facts.append(f_not(cond))
        cache[node.id] = facts
        return facts

    def run(self, track_facts=True):
        cfg = self.cfg
        seen = {}
        work = []
        for g in (True, False):
            work.append((cfg.entry.id, (g, g, ())))
        facts_cache = {}
        exc_reports = {}
        while work:
            nid, state = work.pop()
            if state in seen.setdefault(nid, set()):
                continue
            seen[nid].add(state)
            node = cfg.nodes[nid]
            g, mode, loc = state
            st = node.ast
            nmode, nloc = mode, loc
            succ = list(node.succ)
            if node.kind == 'stmt':
                if isinstance(st, ast.Assign) and len(st.targets) == 1 and isinstance(st.targets[0], ast.Name) \
                        and st.targets[0].id in self.bools:
                    d = dict(loc)
                    if isinstance(st.value, ast.Constant):
                        d[st.targets[0].id] = st.value.value
                    else:
                        d[st.targets[0].id] = self.eval_test(st.value, mode, loc)
                    nloc = tuple(sorted(d.items()))
                for c in ast.walk(st):
                    if isinstance(c, ast.Call) and isinstance(c.func, ast.Attribute) and c.func.attr == SETTER \
                            and self._is_tok(c.func.value):
                        if len(c.args) == 1 and isinstance(c.args[0], ast.Constant) and isinstance(c.args[0].value, bool):
                            nmode = c.args[0].value
                        elif len(c.args) == 1 and isinstance(c.args[0], ast.UnaryOp) and isinstance(c.args[0].op, ast.Not) \
                                and self.eval_test(c.args[0].operand, mode, loc) is not None:
                            nmode = not self.eval_test(c.args[0].operand, mode, loc)
                        elif len(c.args) == 1 and self.eval_test(c.args[0], mode, loc) is not None:
                            nmode = self.eval_test(c.args[0], mode, loc)
                        else:
                            raise AnalysisError('%s: %s(<non-constant>) at %s' % (self.f.where, SETTER, self.f.loc(c)))
            multi = None
            if node.kind == 'stmt' and isinstance(st, (ast.Assign, ast.Expr)) and isinstance(st.value, ast.Call):
                summ = self._helper_call(st.value)
                if summ is not None:
                    multi = []
                    for m_out, rv in summ[mode]:
                        l2 = loc
                        if isinstance(st, ast.Assign) and len(st.targets) == 1 and isinstance(st.targets[0], ast.Name) \
                                and st.targets[0].id in self.bools:
                            d = dict(loc)
                            d[st.targets[0].id] = rv
                            l2 = tuple(sorted(d.items(), key=lambda kv: kv[0]))
                        multi.append((m_out, l2))
            if node.kind == 'test' and isinstance(st, ast.If):
                v = self.eval_test(st.test, mode, loc)
                if v is not None:
                    succ = [(s, lab) for s, lab in succ if lab == ('T' if v else 'F')]
            # exceptional exit of a call made while the mode differs from the caller's
            if track_facts and mode != g and node.kind in ('stmt', 'test', 'loop', 'return') and st is not None:
                und = self.may_raise(node, facts_cache)
                if und:
                    has_exc = any(lab == 'exc' for _, lab in node.succ)
                    if not has_exc:
                        exc_reports.setdefault(nid, und)
            if multi is not None:
                for m_out, l2 in multi:
                    for s, lab in succ:
                        work.append((s, (g, m_out, l2)))
            else:
                for s, lab in succ:
                    work.append((s, (g, nmode, nloc)))
        self.seen = seen
        return exc_reports


def check_join(ctx, name, tok_funcs, ra):
    repo = ctx.repo
    path, qual, measure, _ = JOINS[name]
    f = repo.fn(path, qual)
    required = (measure != 'EDIT_DISTANCE')
    tr = _Tracker(ctx, f, required, tok_funcs, ra)
    exc_reports = tr.run()
    cfg = tr.cfg
    setters = [c for c in repo.calls_in(f) if isinstance(c.func, ast.Attribute) and c.func.attr == SETTER]
    ctx.check('R-FLAG/F1-sites', f, 'set_return_set calls', len(setters) >= 1 or True, nontrivial=False)
    # F1/work
    n_work = 0
    for node in cfg.nodes:
        if node.ast is None or node.id not in tr.seen:
            continue
        parts = []
        if node.kind in ('stmt', 'return'):
            parts = [node.ast]
        elif node.kind == 'test' and isinstance(node.ast, (ast.If, ast.While)):
            parts = [node.ast.test]
        elif node.kind == 'loop' and isinstance(node.ast, ast.For):
            parts = [node.ast.iter]
        for p in parts:
            for c in ast.walk(p):
                if not isinstance(c, ast.Call):
                    continue
                toks = False
                if isinstance(c.func, ast.Attribute) and c.func.attr == 'tokenize':
                    toks = True
                for r in repo.resolve_call_all(f, c):
                    if r is not None and r[0].where in tok_funcs:
                        toks = True
                if not toks:
                    continue
                n_work += 1
                bad = sorted(set(g for g, mode, _ in tr.seen[node.id] if mode != required))
                callee = U(c.func if not isinstance(c.func, ast.Call) else c.func.args[0])
                ctx.check('R-FLAG/F1-work', f, 'call %s%s' % (callee, '/parallel' if isinstance(c.func, ast.Call) else ''),
                          not bad,
                          'tokenizing call `%s` can run with return_set=%s (needs %s for %s) when the caller\'s '
                          'tokenizer had return_set=%s' % (callee, not required, required, measure, bad), c,
                          sample='%s runs with return_set=%s for both initial modes' % (callee, required))
    if n_work == 0:
        raise AnalysisError('%s: no tokenizing call found - call graph broken?' % f.where)
    # F2 / F3
    for exit_node, rule, what in ((cfg.exit, 'R-FLAG/F2-exit', 'normal return'), (cfg.rexit, 'R-FLAG/F3-raise', 'explicit raise')):
        states = tr.seen.get(exit_node.id, set())
        bad = sorted(set(g for g, mode, _ in states if mode != g))
        where = f.node
        if bad:
            # the statement that leaves the function in the wrong mode: a return/raise node whose states are bad
            for nd in cfg.nodes:
                if nd.kind in ('return', 'raise') and any(mode != g for g, mode, _ in tr.seen.get(nd.id, set())):
                    where = nd.ast
                    break
        ctx.check(rule, f, what, not bad,
                  'a %s leaves the tokenizer with return_set=%s although the caller passed return_set=%s'
                  % (what, [not b for b in bad], bad), where,
                  sample='%d abstract states at this exit, all restored' % len(states))
    for nid, und in sorted(exc_reports.items()):
        node = cfg.nodes[nid]
        desc, cond = und[0]
        callee = desc.split(' -> ')[0] if ' -> ' in desc else desc.split(' raises')[0]
        ctx.check('R-FLAG/F3', f, 'flipped call into %s' % callee, False,
                  'while the tokenizer mode is switched, `%s` can still reject the arguments (%s when %s; %d such '
                  'guard(s)) and no finally restores the mode on that exit'
                  % (U(node.ast).split('\n')[0][:80], desc, cond, len(und)), node.ast,
                  detail={'guards': [d for d, _ in und][:20]})
    if not exc_reports:
        ctx.check('R-FLAG/F3', f, 'all flipped calls', True, nontrivial=True,
                  sample='every raise guard reachable while flipped is refuted by the validators that ran before, '
                         'or the call sits in a try/finally that restores')
    return tr


def check_f4(ctx):
    """Nothing but the join functions' set_return_set calls writes a tokenizer."""
    repo = ctx.repo
    allowed = set(repo.fn(p, q).where for p, q, _, _ in JOINS.values())
    # flag helpers: functions that write the tokenizer mode and are called only from the join functions; their
    # effect is folded into the typestate of each caller (flag_summary)
    callers = {}
    for f in repo.all_funcs():
        for c in repo.calls_in(f):
            r = repo.resolve_call(f, c)
            if r is not None:
                callers.setdefault(r[0].where, set()).add(f.where)
    for f in repo.all_funcs():
        if f.where not in allowed and callers.get(f.where) and callers[f.where] <= allowed and 'tokenizer' in f.params:
            allowed = allowed | {f.where}
    n = 0
    for f in repo.all_funcs():
        if f.module.relpath.endswith('disk_edit_distance_join.py'):
            continue
        for node in walk_own(f.node):
            tgt = None
            if isinstance(node, ast.Call) and isinstance(node.func, ast.Attribute) and node.func.attr.startswith('set_') \
                    and 'tokenizer' in U(node.func.value):
                if f.where in allowed and node.func.attr == SETTER:
                    n += 1
                    continue
                tgt = U(node)
            elif isinstance(node, (ast.Assign, ast.AugAssign)):
                ts = node.targets if isinstance(node, ast.Assign) else [node.target]
                for t in ts:
                    if isinstance(t, ast.Attribute) and 'tokenizer' in U(t.value) and U(t.value) != 'self':
                        tgt = U(t)
            if tgt is not None:
                ctx.check('R-FLAG/F4', f, tgt, False,
                          '`%s` writes a tokenizer outside the join functions\' flip/restore' % tgt, node)
    ctx.check('R-FLAG/F4', '-', 'no foreign tokenizer writes', True, nontrivial=False)
    ctx.floor('R-FLAG/F4', n, 6, 'set_return_set call sites in the join functions and their flag helpers')
    # positive fixture: the rule must see a foreign write
    fx = ast.parse('def g(tokenizer):\n    tokenizer.set_return_set(True)\n    tokenizer.qval = 3\n').body[0]
    hits = 0
    for node in ast.walk(fx):
        if isinstance(node, ast.Call) and isinstance(node.func, ast.Attribute) and node.func.attr.startswith('set_') \
                and 'tokenizer' in U(node.func.value):
            hits += 1
        if isinstance(node, ast.Assign) and isinstance(node.targets[0], ast.Attribute) and 'tokenizer' in U(node.targets[0].value):
            hits += 1
    if hits != 2:
        raise AnalysisError('R-FLAG/F4 cannot see its positive fixture')


def run(ctx, joins=None, f4=True):
    ctx.group('R-FLAG')
    tok_funcs = tokenizing_functions(ctx.repo)
    ra = RaiseAnalysis(ctx.repo)
    for name in (joins or sorted(JOINS)):
        check_join(ctx, name, tok_funcs, ra)
    if f4:
        check_f4(ctx)
