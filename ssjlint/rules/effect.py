"""R-EFFECT: inputs are not written; no hidden state; no dependence on index labels.

Ownership: a name is INPUT when it is a parameter, ALIAS when it is bound to a parameter, to an
element/attribute/subscript of an INPUT/ALIAS (loop targets over them included), FRESH when bound
to a literal or to the result of a call. A *mutator* applied to an INPUT/ALIAS object is a finding:
subscript/attribute store, `del`, augmented store, the in-place container/pandas methods, any call
with `inplace=True`, and passing the object to a repository function whose summary says it mutates
that parameter (fixpoint over the call graph). Allowed, each with its reason:
  * `self` in `__init__` and in Index classes (the object under construction / private to one call);
  * the join functions' tokenizer flag protocol (decided by R-FLAG);
  * the converters when control dependent on `inplace` (decided here).
No function declares `global` or writes/mutates a module-level name.
Index-label independence: no `.loc/.ix`, no read of `.index` of a frame, no iterrows, no itertuples
without index=False on anything that is not FRESH."""
import ast

from .. import AnalysisError
from ..flow import view_of
from ..guards import Conds, Universe, to_formula, show
from ..model import U
from .common import P, CONVERTER, call_name, walk_own, parse_expr

MUTATING_METHODS = {'insert', 'pop', 'update', 'append', 'extend', 'sort', 'remove', 'clear', 'reverse', 'setdefault',
                    'popitem', 'add', 'discard', 'fill', 'put', 'itemset', 'resize', 'setflags', '__setitem__',
                    'sort_values', 'sort_index', 'drop_duplicates', 'fillna', 'dropna', 'rename', 'reset_index',
                    'set_index', 'drop', 'replace', 'set_return_set', 'set_padding', 'set_delim_set', 'set_qval'}
# methods that only mutate when called with inplace=True
INPLACE_ONLY = {'sort_values', 'sort_index', 'drop_duplicates', 'fillna', 'dropna', 'rename', 'reset_index', 'set_index',
                'drop', 'replace'}
SKIP_MODULES = ('py_stringsimjoin/join/disk_edit_distance_join.py', 'py_stringsimjoin/utils/missing_value_handler_disk.py',
                'py_stringsimjoin/utils/pickle.py', 'py_stringsimjoin/datasets/base.py')


def _root(e):
    while isinstance(e, (ast.Subscript, ast.Attribute)):
        e = e.value
    return e.id if isinstance(e, ast.Name) else None


def ownership(f):
    """name -> 'INPUT' | 'ALIAS' for names that may denote (part of) an argument object"""
    own = {p: 'INPUT' for p in f.params + f.kwonly}
    changed = True

    def is_shared(e):
        if isinstance(e, ast.Name):
            return e.id in own
        if isinstance(e, (ast.Subscript, ast.Attribute)):
            r = _root(e)
            return r in own
        if isinstance(e, ast.IfExp):
            return is_shared(e.body) or is_shared(e.orelse)
        if isinstance(e, ast.BoolOp):
            return any(is_shared(v) for v in e.values)
        return False
    while changed:
        changed = False
        for n in walk_own(f.node):
            tgts, val = [], None
            if isinstance(n, ast.Assign):
                tgts, val = n.targets, n.value
            elif isinstance(n, ast.For):
                tgts, val = [n.target], n.iter
                # iterating over X.itertuples()/enumerate(X)/iteritems(X) yields fresh tuples; over X itself yields elements
                if isinstance(val, ast.Call):
                    val = None
            elif isinstance(n, ast.With):
                continue
            if val is None or not is_shared(val):
                continue
            for t in tgts:
                for x in ast.walk(t):
                    if isinstance(x, ast.Name) and isinstance(x.ctx, ast.Store) and x.id not in own:
                        # a name that is also assigned a fresh value elsewhere stays shared (may-alias)
                        own[x.id] = 'ALIAS'
                        changed = True
    return own


def _fresh_rebinding(f, name):
    """True when every binding of `name` inside the function is FRESH and it is not a parameter"""
    return False


class Mut(object):
    def __init__(self, node, name, how, param_idx=None):
        self.node, self.name, self.how = node, name, how


def direct_mutations(repo, f, own, summaries):
    """-> list of (node, shared name, description)"""
    out = []
    rebinds = {}
    for n in walk_own(f.node):
        if isinstance(n, ast.Assign):
            for t in n.targets:
                if isinstance(t, ast.Name):
                    rebinds.setdefault(t.id, []).append(n.value)

    def shared(e):
        r = _root(e) if not isinstance(e, ast.Name) else e.id
        if r is None or r not in own:
            return None
        if own[r] == 'INPUT' and r in rebinds:
            # a parameter re-bound to a fresh value (e.g. l_out_attrs = remove_redundant_attrs(..)) may still be the
            # argument on some path; stay conservative only if some rebinding is itself shared
            pass
        return r
    for n in walk_own(f.node):
        if isinstance(n, (ast.Assign, ast.AugAssign, ast.AnnAssign)):
            ts = n.targets if isinstance(n, ast.Assign) else [n.target]
            for t in ts:
                for x in ([t] if not isinstance(t, (ast.Tuple, ast.List)) else t.elts):
                    if isinstance(x, (ast.Subscript, ast.Attribute)):
                        r = shared(x)
                        if r is not None:
                            out.append((n, r, 'store `%s = ...`' % U(x)[:60]))
        elif isinstance(n, ast.Delete):
            for t in n.targets:
                if isinstance(t, (ast.Subscript, ast.Attribute)):
                    r = shared(t)
                    if r is not None:
                        out.append((n, r, '`del %s`' % U(t)[:60]))
        elif isinstance(n, ast.Call):
            kws = {k.arg: k.value for k in n.keywords if k.arg}
            inplace = 'inplace' in kws and not (isinstance(kws['inplace'], ast.Constant) and kws['inplace'].value is False)
            if isinstance(n.func, ast.Attribute):
                r = shared(n.func.value)
                m = n.func.attr
                if r is not None:
                    if m in INPLACE_ONLY:
                        if inplace:
                            out.append((n, r, '`%s(inplace=...)`' % U(n.func)[:60]))
                    elif m in MUTATING_METHODS:
                        out.append((n, r, '`%s(...)`' % U(n.func)[:60]))
                    elif inplace:
                        out.append((n, r, '`%s(inplace=...)`' % U(n.func)[:60]))
            # passing a shared object to a repo function that mutates that parameter
            res = repo.resolve_call(f, n)
            if res is not None:
                callee, kind, bound = res
                for p, a in bound.items():
                    if callee.defaults.get(p) is a:
                        continue
                    if p in summaries.get(callee.where, {}):
                        r = shared(a) if isinstance(a, (ast.Name, ast.Subscript, ast.Attribute)) else None
                        desc, guard = summaries[callee.where][p]
                        if r is not None:
                            garg = bound.get(guard) if guard else None
                            if garg is not None and isinstance(garg, ast.Constant) and not garg.value:
                                continue      # the callee only mutates under a flag that is passed as False
                            out.append((n, r, 'passed as `%s` to %s, which %s' % (p, callee.qual, desc), garg))
    return out


def _allowed(f, node, name, how, repo):
    cls = f.cls.name if f.cls is not None else None
    if name == 'self':
        if f.name == '__init__':
            return 'constructor initialises its own object'
        if cls is not None and f.module.relpath.startswith(P + 'index/'):
            return 'index objects are private to one call'
        return None
    if name == 'tokenizer' and 'set_return_set' in how and f.module.relpath.startswith(P + 'join/') and f.name.endswith('_join_py'):
        return 'tokenizer flag protocol (R-FLAG)'
    if name == 'tokenizer' and 'set_return_set' in how and 'tokenizer' in f.params:
        # a flag helper called only from the join functions: its effect is part of their typestate (R-FLAG)
        cs = set()
        for g in repo.all_funcs():
            for c in repo.calls_in(g):
                r = repo.resolve_call(g, c)
                if r is not None and r[0] is f:
                    cs.add(g)
        if cs and all(g.module.relpath.startswith(P + 'join/') and g.name.endswith('_join_py') for g in cs):
            return 'tokenizer flag helper of the join functions (R-FLAG)'
    return None


def summaries(repo):
    """where -> {param: description} for functions that (may) mutate a parameter object"""
    summ = {}
    funcs = [f for f in repo.all_funcs() if f.module.relpath not in SKIP_MODULES]
    owns = {f.where: ownership(f) for f in funcs}
    for _ in range(6):
        changed = False
        for f in funcs:
            own = owns[f.where]
            fconds = None
            for mut in direct_mutations(repo, f, own, summ):
                node, name, how = mut[0], mut[1], mut[2]
                if _allowed(f, node, name, how, repo):
                    continue
                # is the mutation control dependent on a flag parameter of f?
                guard = None
                try:
                    view = view_of(f)
                    fconds = fconds or Conds(f.node, None)
                    c = fconds.of(view.stmt_of(node))
                    extra = mut[3] if len(mut) > 3 and mut[3] is not None else None
                    if extra is not None:
                        from ..guards import f_and
                        c = f_and(c, to_formula(extra))
                    for q in f.params + f.kwonly:
                        if q != name and Universe().implies(c, to_formula(ast.Name(id=q, ctx=ast.Load()))) is None:
                            guard = q
                            break
                except AnalysisError:
                    guard = None
                # which parameter does `name` stem from? (ALIAS: any parameter it may alias - approximate by itself)
                params = [name] if name in f.params + f.kwonly else _alias_sources(f, name, own)
                for p in params:
                    d = summ.setdefault(f.where, {})
                    if p not in d or (d[p][1] is not None and guard is None):
                        d[p] = ('mutates it (%s at %s)' % (how.split(', which')[0], f.loc(node)), guard)
                        changed = True
        if not changed:
            break
    return summ, owns


def _alias_sources(f, name, own):
    srcs = set()
    todo = [name]
    seen = set()
    while todo:
        x = todo.pop()
        if x in seen:
            continue
        seen.add(x)
        if x in f.params + f.kwonly:
            srcs.add(x)
            continue
        for n in walk_own(f.node):
            val = None
            tg = []
            if isinstance(n, ast.Assign):
                tg, val = n.targets, n.value
            elif isinstance(n, ast.For) and not isinstance(n.iter, ast.Call):
                tg, val = [n.target], n.iter
            if val is None:
                continue
            if any(isinstance(t, ast.Name) and t.id == x for tt in tg for t in ast.walk(tt)):
                r = _root(val) if not isinstance(val, ast.Name) else val.id
                if r:
                    todo.append(r)
    return sorted(srcs)


def check_mutations(ctx):
    repo = ctx.repo
    summ, owns = summaries(repo)
    n_funcs = 0
    for f in repo.all_funcs():
        if f.module.relpath in SKIP_MODULES:
            continue
        n_funcs += 1
        own = owns[f.where]
        conds = None
        for mut in direct_mutations(repo, f, own, summ):
            node, name, how = mut[0], mut[1], mut[2]
            garg = mut[3] if len(mut) > 3 else None
            why = _allowed(f, node, name, how, repo)
            if why:
                ctx.check('R-EFFECT/mutation', f, '%s: %s' % (name, how[:50]), True, nontrivial=True,
                          sample='allowed: %s' % why)
                continue
            if f.module.relpath == CONVERTER:
                # allowed only when control dependent on `inplace`
                view = view_of(f)
                conds = conds or Conds(f.node, None)
                st = view.stmt_of(node)
                c = conds.of(st)
                if garg is not None:
                    from ..guards import f_and
                    c = f_and(c, to_formula(garg))
                w = Universe().implies(c, to_formula(parse_expr('inplace')))
                ctx.check('R-EFFECT/inplace-only', f, '%s: %s' % (name, how[:50]), w is None,
                          'the converter changes its argument `%s` (%s) on a path where inplace is not set: %s'
                          % (name, how, show(conds.of(st))[:100]), node, sample='mutation only under inplace')
                continue
            ctx.check('R-EFFECT/mutation', f, '%s: %s' % (name, how[:50]), False,
                      'the caller\'s object `%s` is changed in place: %s' % (name, how), node)
        # filter objects: no store to self outside __init__
    ctx.check('R-EFFECT/mutation', '-', 'functions scanned', True, nontrivial=False, sample='%d functions' % n_funcs)
    ctx.floor('R-EFFECT', n_funcs, 80, 'functions')
    # positive fixture
    from ..model import ModInfo, FuncInfo
    m = ModInfo('fx', 'fx.py', 'def g(ltable, out_attrs):\n    t = ltable\n    t.sort_values("a", inplace=True)\n    out_attrs.append(1)\n    x = ltable[["a"]]\n    x["b"] = 1\n')
    fx = FuncInfo(m, m.tree.body[0])
    hits = direct_mutations(repo, fx, ownership(fx), {})
    if len(hits) != 3:
        raise AnalysisError('R-EFFECT cannot see its positive fixture (%d of 3)' % len(hits))


def _input_deps(f, e):
    """the inputs of function f an expression depends on: parameters (as `p` or `p.attr`), `self.attr`"""
    params = set(f.params + f.kwonly)
    out = set()
    skip = set()
    for n in ast.walk(e):
        if isinstance(n, ast.Attribute) and isinstance(n.value, ast.Name) and n.value.id in params:
            out.add('%s.%s' % (n.value.id, n.attr))
            skip.add(id(n.value))
    for n in ast.walk(e):
        if isinstance(n, ast.Name) and n.id in params and id(n) not in skip and n.id != 'self':
            out.add(n.id)
    return out


def _memo_missing(f, store):
    """-> sorted inputs the stored value depends on but the key does not mention; None when not analysable"""
    view = view_of(f)
    try:
        key = view.expand(store.targets[0].slice, store)
        val = view.expand(store.value, store)
    except Exception:
        return None
    if any(isinstance(n, ast.Name) and '@' in n.id for n in ast.walk(val)):
        return None         # a value with several reaching definitions: not a plain memo
    kd, vd = _input_deps(f, key), _input_deps(f, val)
    if not vd:
        return None
    missing = [d for d in sorted(vd) if d not in kd and d.split('.')[0] not in kd]
    return missing


def check_globals(ctx):
    repo = ctx.repo
    n = 0
    for f in repo.all_funcs():
        if f.module.relpath in SKIP_MODULES:
            continue
        n += 1
        mod_names = set(f.module.globals) | set(f.module.imports)
        local = set(f.params + f.kwonly)
        for x in walk_own(f.node):
            if isinstance(x, (ast.Assign, ast.For, ast.With)):
                for t in ast.walk(x):
                    if isinstance(t, ast.Name) and isinstance(t.ctx, ast.Store):
                        local.add(t.id)
        for x in walk_own(f.node):
            if isinstance(x, (ast.Global, ast.Nonlocal)):
                ctx.check('R-EFFECT/global', f, ','.join(x.names), False,
                          '`%s` - a function writes module-level state: one call can influence a later one' % U(x), x)
            tgt = None
            if isinstance(x, (ast.Assign, ast.AugAssign)):
                for t in (x.targets if isinstance(x, ast.Assign) else [x.target]):
                    if isinstance(t, (ast.Subscript, ast.Attribute)):
                        r = _root(t)
                        if r in mod_names and r not in local:
                            tgt = U(t)
            if isinstance(x, ast.Call) and isinstance(x.func, ast.Attribute) and x.func.attr in MUTATING_METHODS - INPLACE_ONLY:
                r = _root(x.func.value) if not isinstance(x.func.value, ast.Name) else x.func.value.id
                if r in f.module.globals and r not in local:
                    tgt = U(x)[:60]
            if tgt and isinstance(x, ast.Assign) and len(x.targets) == 1 and isinstance(x.targets[0], ast.Subscript) \
                    and isinstance(x.targets[0].value, ast.Name):
                # `CACHE[key] = value`: a memo. It cannot influence a later call iff the value is determined by the key.
                missing = _memo_missing(f, x)
                if missing is not None:
                    ctx.check('R-EFFECT/memo', f, tgt, not missing,
                              'the value memoised in the module-level `%s` depends on %s, which %s not part of the key `%s`: '
                              'a later call with another value gets the stale result'
                              % (x.targets[0].value.id, ', '.join('`%s`' % m_ for m_ in missing), 'is' if len(missing) == 1 else 'are',
                                 U(x.targets[0].slice)[:60]), x, sample='memo keyed by every input of the value')
                    continue
            if tgt:
                ctx.check('R-EFFECT/global', f, tgt, False, '`%s` changes a module-level object' % tgt, x)
        # mutable default arguments that are mutated
        for p, d in f.defaults.items():
            if isinstance(d, (ast.List, ast.Dict, ast.Set)):
                ctx.check('R-EFFECT/global', f, 'default %s' % p, False,
                          'parameter %s has a mutable default: state shared between calls' % p, d)
    ctx.check('R-EFFECT/global', '-', 'functions scanned', True, nontrivial=False, sample='%d functions' % n)
    # filter objects keep no per-call state: stores to self only in __init__
    for m in repo.modules.values():
        if not m.relpath.startswith(P + 'filter/'):
            continue
        for c in m.classes.values():
            for name, meth in c.methods.items():
                if name == '__init__':
                    continue
                for x in walk_own(meth.node):
                    if isinstance(x, (ast.Assign, ast.AugAssign)):
                        for t in (x.targets if isinstance(x, ast.Assign) else [x.target]):
                            if isinstance(t, (ast.Attribute, ast.Subscript)) and _root(t) == 'self':
                                ctx.check('R-EFFECT/filter-state', meth, U(t), False,
                                          'filter method stores `%s`: a filter object carries state from one call to the next' % U(t), x)
            ctx.check('R-EFFECT/filter-state', c.methods.get('__init__', list(c.methods.values())[0]) if c.methods else '-',
                      c.name, True, nontrivial=True, sample='%s: fields written in __init__ only' % c.name)


def _is_repo_index(repo, f, recv):
    """receiver is an object of one of the package's own Index classes (whose field is called `index`)"""
    ty = repo.local_types(f)
    r = _root(recv) if not isinstance(recv, ast.Name) else recv.id
    c = ty.get(r)
    return c is not None and c.module.relpath.startswith(P + 'index/')


def check_index_labels(ctx):
    """C10: results never depend on DataFrame index labels."""
    repo = ctx.repo
    n = 0
    for f in repo.all_funcs():
        if f.module.relpath in SKIP_MODULES or f.module.relpath == CONVERTER:
            continue
        own = ownership(f)
        for x in walk_own(f.node):
            bad = None
            if isinstance(x, ast.Attribute) and x.attr in ('loc', 'ix', 'at') and _root(x.value) in own:
                bad = 'label-based access `%s`' % U(x)[:50]
            elif isinstance(x, ast.Attribute) and x.attr == 'index' and isinstance(x.ctx, ast.Load) and _root(x.value) in own \
                    and not _is_repo_index(repo, f, x.value):
                bad = None
                # `.index(` on a list is a call; an attribute read that is not called is a frame's index
                par_is_call = False
                for y in walk_own(f.node):
                    if isinstance(y, ast.Call) and y.func is x:
                        par_is_call = True
                if not par_is_call:
                    bad = 'reads the index labels `%s`' % U(x)[:50]
            elif isinstance(x, ast.Call) and call_name(x) == 'iterrows' and isinstance(x.func, ast.Attribute) and _root(x.func.value) in own:
                bad = 'iterrows() yields index labels'
            elif isinstance(x, ast.Call) and call_name(x) == 'itertuples' and isinstance(x.func, ast.Attribute):
                n += 1
                kws = {k.arg: k.value for k in x.keywords}
                if not ('index' in kws and isinstance(kws['index'], ast.Constant) and kws['index'].value is False):
                    bad = 'itertuples() without index=False puts the index label in front of every row'
            if bad:
                ctx.check('R-EFFECT/index-labels', f, bad[:60], False,
                          '%s: the result would depend on how the DataFrame is indexed' % bad, x)
    ctx.check('R-EFFECT/index-labels', '-', 'itertuples sites', True, nontrivial=False, sample='%d itertuples(index=False)' % n)
    ctx.floor('R-EFFECT/index-labels', n, 7, 'itertuples sites')


def run(ctx, mutations=True, globals_=True, labels=True):
    ctx.group('R-EFFECT')
    if mutations:
        check_mutations(ctx)
    if globals_:
        check_globals(ctx)
    if labels:
        check_index_labels(ctx)
