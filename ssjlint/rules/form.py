"""R-FORM: the pruning formulas are the reference formulas, rounded the repository's way.

Reads `filter_utils.get_size_lower_bound / get_size_upper_bound / get_prefix_length /
get_overlap_threshold` into {measure: returned expression} through their path conditions,
normalises each expression to a rational normal form and orders it against the reference:

  safe side  (C01 C03 C04 C13): lower bounds / required overlap never above, upper bounds and
              prefix lengths never below the reference (so a looser bound never alarms);
  tight side (C14, size bounds): never looser than the reference.

The order between `W(core)+c` and the reference `ceil(round(core,4))` / `floor(round(core,4))`
is decided from the wrapper W in {ceil,floor} x {round4, none} and the constant c (table SAFE /
TIGHT below); a different *core* is a deviation this checker cannot order and fails closed."""
import ast
from fractions import Fraction

from .. import AnalysisError
from ..flow import view_of
from ..guards import Conds, Universe, outcomes, show_asg
from ..model import U
from ..symx import Norm, Rat, Unsupported
from .common import FILTER_UTILS, MEASURES, expander, parse_expr

N, T = 'num_tokens', 'threshold'

REF = {
    'get_size_lower_bound': ('lower', {
        'JACCARD': ('wrap', 'threshold * num_tokens'),
        'COSINE': ('wrap', 'threshold * threshold * num_tokens'),
        'DICE': ('wrap', 'threshold / (2 - threshold) * num_tokens'),
        'EDIT_DISTANCE': ('plain', 'num_tokens - threshold'),
        'OVERLAP': ('plain', 'threshold'),
    }),
    'get_size_upper_bound': ('upper', {
        'JACCARD': ('wrap', 'num_tokens / threshold'),
        'COSINE': ('wrap', 'num_tokens / (threshold * threshold)'),
        'DICE': ('wrap', '(2 - threshold) / threshold * num_tokens'),
        'EDIT_DISTANCE': ('plain', 'num_tokens + threshold'),
        'OVERLAP': ('plain', 'maxsize'),
    }),
    'get_prefix_length': ('prefix', {
        'JACCARD': ('wrap', 'threshold * num_tokens'),
        'COSINE': ('wrap', 'threshold * threshold * num_tokens'),
        'DICE': ('wrap', 'threshold / (2 - threshold) * num_tokens'),
        'EDIT_DISTANCE': ('minmax', 'min', 'tokenizer.qval * threshold + 1', 'num_tokens'),
        'OVERLAP': ('minmax', 'max', 'num_tokens - threshold + 1', '0'),
    }),
    'get_overlap_threshold': ('lower', {
        'JACCARD': ('wrap', 'threshold / (1 + threshold) * (l_num_tokens + r_num_tokens)'),
        'COSINE': ('wrap', 'threshold * sqrt(l_num_tokens * r_num_tokens)'),
        'DICE': ('wrap', 'threshold / 2 * (l_num_tokens + r_num_tokens)'),
        'EDIT_DISTANCE': ('plain', 'max(l_num_tokens + tokenizer.qval - 1, r_num_tokens + tokenizer.qval - 1)'
                                   ' - tokenizer.qval + 1 - tokenizer.qval * threshold'),
        'OVERLAP': ('plain', 'threshold'),
    }),
}

# wrapper (ceil|floor, rounded?) -> predicate on the integer constant c, for
#   impl = W(core) + c   versus   ref = ceil(round(core,4))  [lower-type]  /  floor(round(core,4)) [upper-type]
LOWER_NOT_ABOVE = {('ceil', True): lambda c: c <= 0, ('floor', True): lambda c: c <= 0,
                   ('floor', False): lambda c: c <= 0, ('ceil', False): lambda c: c <= -1}
LOWER_NOT_BELOW = {('ceil', True): lambda c: c >= 0, ('ceil', False): lambda c: c >= 0,
                   ('floor', True): lambda c: c >= 1, ('floor', False): lambda c: c >= 1}
UPPER_NOT_BELOW = {('floor', True): lambda c: c >= 0, ('ceil', True): lambda c: c >= 0,
                   ('ceil', False): lambda c: c >= 0, ('floor', False): lambda c: c >= 1}
UPPER_NOT_ABOVE = {('floor', True): lambda c: c <= 0, ('floor', False): lambda c: c <= 0,
                   ('ceil', True): lambda c: c <= -1, ('ceil', False): lambda c: c <= -1}


def _delegate(f, depth=0):
    """a formula function that never looks at the measure itself but hands all its parameters, in order, to one
    other function of the module (a memoising or otherwise thin wrapper): the formulas are that function's"""
    if depth > 2 or any(isinstance(n, ast.Name) and n.id == 'sim_measure_type' and isinstance(p_, ast.Compare)
                        for p_ in ast.walk(f.node) for n in ast.walk(p_) if isinstance(p_, ast.Compare)):
        return f
    repo = getattr(f.module, 'repo', None)
    if repo is None:
        return f
    targets = []
    for c in repo.calls_in(f):
        r = repo.resolve_call(f, c)
        if r is None or r[0] is f or r[0].module is not f.module:
            continue
        g, _, b = r
        if g.params == f.params and all(isinstance(b.get(p_), ast.Name) and b[p_].id == p_ for p_ in g.params):
            targets.append(g)
    if len(targets) == 1:
        return _delegate(targets[0], depth + 1)
    return f


def read_branches(ctx, f):
    """-> {measure: [(side-condition text, return expr ast, return stmt)]}; a measure with no return
    is mapped to []"""
    f = _delegate(f)
    view = view_of(f)
    ex = expander(view)
    conds = Conds(f.node, ex)
    outs = outcomes(f.node, conds, ex, kinds=(ast.Return,))
    uni = Universe()
    for o in outs:
        uni.note(o.cond)
    mkey = 'enum:sim_measure_type'
    if mkey not in uni.vars:
        raise AnalysisError('%s: no case split on sim_measure_type found (formula table not recognisable)'
                            % f.where)
    uni.vars[mkey]['values'] |= set(MEASURES)
    keys = sorted(set().union(*[uni.vars_of(o.cond) for o in outs]))
    table = {}
    for m in MEASURES:
        rows = {}
        for asg in uni.assignments({mkey: m}, keys):
            hit = [o for o in outs if uni.eval(o.cond, asg)]
            side = {k: v for k, v in asg.items() if k != mkey and k != '__memo__'}
            if not hit:
                rows.setdefault(('<no return>', None), []).append(side)
            else:
                o = hit[0]
                rows.setdefault((o.key, id(o.stmt)), []).append(side)
        by_stmt = {id(o.stmt): o for o in outs}
        table[m] = []
        for (key, sid), sides in rows.items():
            o = by_stmt.get(sid)
            table[m].append((key, o, sides))
    return table, view


def _wrapper(norm, e):
    """e (Rat) == s*A + rest with exactly one ceil/floor atom A -> (s, wname, rounded, digits, core Rat, rest)"""
    if not e.is_poly():
        return None
    found = []
    for a in e.n.atoms():
        info = norm.info(a)
        if info and info[0] in ('ceil', 'floor'):
            found.append(a)
    if len(found) != 1:
        return None
    a = found[0]
    # coefficient of a: must appear linearly in one monomial
    coeff = None
    for mono, v in e.n.t.items():
        if any(x == a for x, _ in mono):
            if mono != ((a, 1),) or coeff is not None:
                return None
            coeff = v
    rest = e - Rat.atom(a) * Rat.const(coeff)
    wname, args = norm.info(a)
    inner = args[0]
    sa = inner.single_atom()
    rounded, digits, core = False, None, inner
    if sa is not None and sa[1] == 1 and sa[2] == 0:
        info = norm.info(sa[0])
        if info and info[0] == 'round':
            rounded = True
            digits = info[1][1].as_const() if len(info[1]) > 1 else Fraction(0)
            core = info[1][0]
    return coeff, wname, rounded, digits, core, rest


def _describe(wname, rounded, c):
    s = '%s(%s)' % (wname, 'round(core, 4)' if rounded else 'core')
    if c:
        s += ' %+d' % c
    return s


def compare(kind, spec, expr, sides):
    """-> list of (subrule, ok_safe, ok_tight, message). kind in lower/upper/prefix."""
    norm = Norm()
    try:
        e = norm.visit(expr)
    except Unsupported as ex:
        return [('shape', None, None, 'expression not recognisable: %s' % ex)]
    res = []
    if spec[0] == 'wrap':
        ref_core = norm.visit(parse_expr(spec[1]))
        w = _wrapper(norm, e)
        if w is None:
            return [('shape', False, False, 'expected one ceil/floor of the bound core, found `%s`' % U(expr))]
        coeff, wname, rounded, digits, core, rest = w
        if rounded and digits != 4:
            return [('rounding', False, False, 'round(.., %s) is not the repository\'s 4-decimal discipline' % digits)]
        if core != ref_core:
            return [('core', False, False, 'bound core is `%s`, reference core is `%s`'
                     % (core.canon(), ref_core.canon()))]
        if kind in ('lower', 'upper'):
            c = rest.as_const()
            if coeff != 1 or c is None or c.denominator != 1:
                return [('shape', False, False, 'bound is not W(core)+c: `%s`' % U(expr))]
            c = int(c)
            if kind == 'lower':
                safe, tight = LOWER_NOT_ABOVE[(wname, rounded)](c), LOWER_NOT_BELOW[(wname, rounded)](c)
                refd = 'ceil(round(core, 4))'
            else:
                safe, tight = UPPER_NOT_BELOW[(wname, rounded)](c), UPPER_NOT_ABOVE[(wname, rounded)](c)
                refd = 'floor(round(core, 4))'
            return [('order', safe, tight, 'bound is %s, reference is %s' % (_describe(wname, rounded, c), refd))]
        # prefix: n - W(core) + c_p ; safe iff W(core) + (1 - c_p) <= ceil(round(core,4))
        cp = (rest - Rat.atom(N)).as_const()
        if coeff != -1 or cp is None or cp.denominator != 1:
            return [('shape', False, False, 'prefix length is not num_tokens - W(core) + c: `%s`' % U(expr))]
        ceff = 1 - int(cp)
        safe = LOWER_NOT_ABOVE[(wname, rounded)](ceff)
        tight = LOWER_NOT_BELOW[(wname, rounded)](ceff)
        return [('order', safe, tight, 'prefix length is num_tokens - %s %+d, reference is num_tokens - '
                 'ceil(round(core, 4)) + 1' % (_describe(wname, rounded, 0), int(cp)))]
    if spec[0] == 'plain':
        ref = norm.visit(parse_expr(spec[1]))
        c = e.diff_const(ref)
        if c is None:
            return [('core', False, False, 'expression `%s` differs from reference `%s` by a non-constant'
                     % (U(expr), spec[1]))]
        if kind == 'lower':
            safe, tight = c <= 0, c >= 0
        else:
            safe, tight = c >= 0, c <= 0
        # int()/floor()/ceil() around the bound are erased by the normal form; for a fractional threshold they move the
        # bound: truncation loosens a lower bound, ceil loosens an upper bound (sizes are integers, so the other
        # direction is exact)
        rounders = set()
        for x in ast.walk(expr):
            if isinstance(x, ast.Call) and isinstance(x.func, (ast.Name, ast.Attribute)) and len(x.args) == 1 \
                    and any(isinstance(y, ast.Name) and y.id == 'threshold' for y in ast.walk(x.args[0])):
                nm = x.func.id if isinstance(x.func, ast.Name) else x.func.attr
                if nm in ('int', 'floor', 'trunc'):
                    rounders.add('down')
                if nm == 'ceil':
                    rounders.add('up')
        note = ''
        if kind == 'lower' and 'down' in rounders:
            tight = False
            note = '; truncated: for a fractional threshold the lower bound is up to one too small'
        if kind != 'lower' and 'up' in rounders:
            tight = False
            note = '; rounded up: for a fractional threshold the upper bound is up to one too large'
        return [('order', safe, tight, 'bound is reference %+g (reference `%s`)%s' % (float(c), spec[1], note))]
    if spec[0] == 'minmax':
        _, fname, a_src, b_src = spec
        ref = norm.visit(parse_expr('%s(%s, %s)' % (fname, a_src, b_src)))
        if e == ref:
            return [('order', True, True, 'equals reference %s(%s, %s)' % (fname, a_src, b_src))]
        # looser first argument: f(a + c, b) with c >= 0, or the identity bound b (prefix = everything)
        for c in range(1, 4):
            alt = norm.visit(parse_expr('%s(%s + %d, %s)' % (fname, a_src, c, b_src)))
            if e == alt:
                return [('order', True, False, 'prefix length is reference with first argument +%d' % c)]
        if fname == 'min' and e == norm.visit(parse_expr(b_src)):
            return [('order', True, False, 'prefix length is the whole token list')]
        return [('core', False, False, 'prefix length `%s` is not %s(%s [+c], %s)' % (U(expr), fname, a_src, b_src))]
    raise AnalysisError('bad reference spec')


def inline_siblings(repo, expr, m, seen=()):
    """replace calls of the four formula functions inside `expr` by their expression for measure m (the
    "bound computed through the sibling helper" idiom)"""
    import copy
    from .common import subst_names

    class T(ast.NodeTransformer):
        def visit_Call(s, n):
            n = s.generic_visit(n)
            name = n.func.id if isinstance(n.func, ast.Name) else None
            if name in REF and name not in seen:
                g = repo.fn(FILTER_UTILS, name)
                table, gview = read_branches(None, g)
                rows = [r for r in table.get(m, []) if r[1] is not None
                        and not all(set(s_.keys()) == {'num:' + N} and s_['num:' + N] == 0 for s_ in r[2])]
                if len(rows) != 1:
                    raise AnalysisError('%s: cannot inline sibling %s for measure %s' % (FILTER_UTILS, name, m))
                o = rows[0][1]
                e = gview.expand(o.stmt.value, o.stmt)
                mapping = {}
                for p_, a in zip(g.params, n.args):
                    mapping[p_] = a
                for kw in n.keywords:
                    mapping[kw.arg] = kw.value
                e = subst_names(e, mapping)
                return inline_siblings(repo, e, m, seen + (name,))
            return n
    return T().visit(copy.deepcopy(expr))


def run(ctx, measures, mode, funcs=None):
    """mode: 'safe' or 'tight'. measures: which rows are charged to the calling property."""
    ctx.group('R-FORM')
    repo = ctx.repo
    n_inst = 0
    for fname, (kind, specs) in REF.items():
        if funcs is not None and fname not in funcs:
            continue
        f = repo.fn(FILTER_UTILS, fname)
        table, view = read_branches(ctx, f)
        for m in measures:
            rows = table[m]
            spec = specs[m]
            for key, o, sides in rows:
                # side conditions: the only recognised one is num_tokens == 0 -> 0 in get_prefix_length
                if o is None:
                    ctx.check('R-FORM/exhaustive', f, m, False,
                              '%s has no return for measure %s (falls through to None) under {%s}'
                              % (fname, m, show_asg(sides[0])), f.node)
                    n_inst += 1
                    continue
                expr = view.expand(o.stmt.value, o.stmt) if o.stmt.value is not None else ast.Constant(None)
                expr = inline_siblings(repo, expr, m, (fname,))
                zero_side = all(set(s.keys()) == {'num:' + N} and s['num:' + N] == 0 for s in sides)
                if fname == 'get_prefix_length' and zero_side:
                    try:
                        c = Norm().visit(expr).as_const()
                    except Unsupported:
                        c = None
                    ok = c is not None and 0 <= c <= 1
                    ctx.check('R-FORM/empty-prefix', f, m, ok,
                              'prefix length of an empty token list must be 0 (or 1), is `%s`' % U(expr), o.stmt,
                              sample='num_tokens == 0 -> %s' % U(expr))
                    n_inst += 1
                    continue
                for sub, safe, tight, msg in compare(kind, spec, expr, sides):
                    n_inst += 1
                    if safe is None:
                        raise AnalysisError('%s[%s]: %s' % (fname, m, msg))
                    ok = safe if mode == 'safe' else tight
                    side = 'looser-or-equal (safe) side' if mode == 'safe' else 'tighter-or-equal (tight) side'
                    ctx.check('R-FORM/%s' % sub, f, '%s/%s' % (m, mode), ok,
                              '%s[%s]: %s - not on the %s' % (fname, m, msg, side), o.stmt,
                              detail={'measure': m, 'mode': mode, 'expr': U(expr)},
                              sample='%s[%s] = %s ; %s' % (fname, m, U(expr), msg))
    ctx.floor('R-FORM', n_inst, len(measures) * (len(funcs) if funcs else 4), 'formula instances')
