"""R-SIDE: left is left (sidedness typing; see side.py for how a name gets its side).

S1 an L-named target is assigned from / iterates over an expression naming only R-things (or vice versa);
S2 an L-named parameter of a resolved repository callee is bound to an argument naming only R-things;
S3 `row[idx]` with row and index of opposite sides;
S4 a validator's label literal ('left table' / 'right table') disagrees with the side of its arguments.
Mixed expressions are allowed; names without a marker are neutral."""
import ast

from .. import AnalysisError
from ..model import U
from ..side import side_of_name, expr_side, label_side, sides
from .common import walk_own, call_name

SKIP = ('py_stringsimjoin/join/disk_edit_distance_join.py', 'py_stringsimjoin/utils/missing_value_handler_disk.py')


def run(ctx, only=None, callees=None):
    """only: restrict to these module paths (floors are then scaled to what those modules hold);
    callees: with `only`, additionally type the argument bindings (S2) of every call, in any module, whose resolved
    callee is defined in one of these module paths (the callers of a sided helper are where its sides get swapped)"""
    ctx.group('R-SIDE')
    repo = ctx.repo
    cnt = dict(S1=0, S2=0, S3=0, S4=0, S5=0, S6=0, S7=0)
    for f in repo.all_funcs():
        if f.module.relpath in SKIP:
            continue
        outside = only is not None and f.module.relpath not in only
        if outside and not callees:
            continue
        for n in walk_own(f.node):
            if outside:
                # a caller of one of the `callees` modules: only its bindings to that helper
                if not isinstance(n, ast.Call):
                    continue
                r = repo.resolve_call(f, n)
                if r is None or r[0].module.relpath not in callees:
                    continue
                for p, a in r[2].items():
                    if r[0].defaults.get(p) is a:
                        continue
                    ps = side_of_name(p)
                    if ps:
                        cnt['S2'] += 1
                        es = expr_side(a)
                        if es and es != ps:
                            ctx.check('R-SIDE/S2', f, '%s(%s=%s)' % (r[0].qual, p, U(a)[:40]), False,
                                      'the %s-side parameter `%s` of %s receives the %s-side argument `%s`'
                                      % (ps, p, r[0].qual, es, U(a)[:80]), n)
                continue
            if isinstance(n, ast.Assign) and len(n.targets) == 1:
                tg = n.targets[0]
                tgs = [tg] if isinstance(tg, ast.Name) else ([e for e in tg.elts if isinstance(e, ast.Name)] if isinstance(tg, ast.Tuple) else [])
                for x in tgs:
                    s = side_of_name(x.id)
                    if s:
                        cnt['S1'] += 1
                        es = expr_side(n.value)
                        # a value *computed* from the other side (a bound, a difference) is not a mix-up; only a
                        # plain copy / lookup / call result of the other side is
                        if any(isinstance(y, (ast.BinOp, ast.Compare, ast.BoolOp)) for y in ast.walk(n.value)):
                            es = None
                        if es and es != s:
                            ctx.check('R-SIDE/S1', f, '%s = %s' % (x.id, U(n.value)[:50]), False,
                                      '%s-side name `%s` is assigned from the %s-side expression `%s`'
                                      % (s, x.id, es, U(n.value)[:80]), n)
            if isinstance(n, ast.For) and isinstance(n.target, ast.Name):
                s = side_of_name(n.target.id)
                if s:
                    cnt['S1'] += 1
                    es = expr_side(n.iter)
                    if es and es != s:
                        ctx.check('R-SIDE/S1', f, 'for %s in %s' % (n.target.id, U(n.iter)[:50]), False,
                                  '%s-side loop variable `%s` iterates over the %s-side `%s`' % (s, n.target.id, es, U(n.iter)[:80]), n)
            if isinstance(n, ast.Subscript) and not isinstance(n.slice, ast.Slice):
                a, b = expr_side(n.value), expr_side(n.slice)
                if a and b:
                    cnt['S3'] += 1
                    if a != b:
                        ctx.check('R-SIDE/S3', f, U(n)[:60], False,
                                  '`%s` indexes a %s-side row with a %s-side index' % (U(n)[:80], a, b), n)
            if isinstance(n, ast.Call) and isinstance(n.func, ast.Attribute) and n.func.attr == 'index' and len(n.args) == 1 \
                    and not n.keywords:
                # <columns of one table>.index(<attribute of a table>)
                a, b = expr_side(n.func.value), expr_side(n.args[0])
                if a and b:
                    cnt['S6'] += 1
                    if a != b:
                        ctx.check('R-SIDE/S6', f, U(n)[:60], False,
                                  '`%s` looks up a %s-side attribute in the %s-side column list' % (U(n)[:80], b, a), n)
            if isinstance(n, ast.If):
                # `if <sided name>:` / `if <sided name> is not None:` guarding work on the other side only
                t = n.test
                g = None
                if isinstance(t, ast.Name):
                    g = t.id
                elif isinstance(t, ast.Compare) and isinstance(t.left, ast.Name) and len(t.ops) == 1 \
                        and isinstance(t.ops[0], (ast.IsNot, ast.Is)) and isinstance(t.comparators[0], ast.Constant) \
                        and t.comparators[0].value is None:
                    g = t.left.id
                gs = side_of_name(g) if g else None
                if gs:
                    body = n.body if not (isinstance(t, ast.Compare) and isinstance(t.ops[0], ast.Is)) else n.orelse
                    l = r_ = 0
                    for st_ in body:
                        a, b = sides(st_)
                        l += a
                        r_ += b
                    if l or r_:
                        cnt['S5'] += 1
                        same, opp = (l, r_) if gs == 'L' else (r_, l)
                        if opp and not same:
                            ctx.check('R-SIDE/S5', f, 'if %s' % g, False,
                                      'the test on the %s-side `%s` guards statements that use only %s-side names: the '
                                      'wrong side is tested' % (gs, g, 'R' if gs == 'L' else 'L'), n)
            if isinstance(n, ast.Call):
                r = repo.resolve_call(f, n)
                if r is not None:
                    callee, kind, bound = r
                    for p, a in bound.items():
                        if callee.defaults.get(p) is a:
                            continue
                        ps = side_of_name(p)
                        if ps:
                            cnt['S2'] += 1
                            es = expr_side(a)
                            if es and es != ps:
                                ctx.check('R-SIDE/S2', f, '%s(%s=%s)' % (callee.qual, p, U(a)[:40]), False,
                                          'the %s-side parameter `%s` of %s receives the %s-side argument `%s`'
                                          % (ps, p, callee.qual, es, U(a)[:80]), n)
                    # S7: a helper without any sided parameter works on ONE table: its sided arguments agree
                    if not any(side_of_name(p) for p in callee.params) and callee.cls is None \
                            and callee.module.relpath.endswith(('utils/generic_helper.py', 'utils/validation.py', 'utils/converter.py')):
                        sd = [(expr_side(a), a) for p, a in bound.items() if callee.defaults.get(p) is not a]
                        sd = [(x, a) for x, a in sd if x]
                        if len(sd) >= 2:
                            cnt['S7'] += 1
                            if len(set(x for x, _ in sd)) > 1:
                                ctx.check('R-SIDE/S7', f, U(n)[:70], False,
                                          '`%s` hands %s to the one-table helper %s: left and right arguments are mixed'
                                          % (U(n)[:80], ', '.join('`%s` (%s)' % (U(a)[:30], x) for x, a in sd), callee.qual), n)
                    if callee.name.startswith('validate_'):
                        lits = [a.value for a in n.args if isinstance(a, ast.Constant) and isinstance(a.value, str)]
                        ls = None
                        for s in lits:
                            ls = label_side(s) or ls
                        if ls:
                            cnt['S4'] += 1
                            for a in n.args:
                                if not isinstance(a, ast.Constant):
                                    es = expr_side(a)
                                    if es and es != ls:
                                        ctx.check('R-SIDE/S4', f, U(n)[:70], False,
                                                  'validator labelled %s-side checks the %s-side argument `%s`: the wrong '
                                                  'table is validated (or the message names the wrong one)' % (ls, es, U(a)[:60]), n)
    for k, v in sorted(cnt.items()):
        ctx.check('R-SIDE/%s' % k, '-', 'sites', True, nontrivial=False, sample='%d sites typed, all consistent' % v)
    ctx.counts['R-SIDE/sites'] = sum(cnt.values())
    # the obligations are the typed sites themselves
    for k, v in cnt.items():
        for i in range(v):
            ctx.obligations.append(('R-SIDE/%s' % k, '-', 'site %d' % i, True, i < 1))
    if only is not None:
        ctx.floor('R-SIDE/sites', sum(cnt.values()), 15, 'sided sites in %s' % (only,))
        return
    ctx.floor('R-SIDE/S1', cnt['S1'], 250, 'sided assignments')
    ctx.floor('R-SIDE/S2', cnt['S2'], 600, 'sided parameter bindings')
    ctx.floor('R-SIDE/S3', cnt['S3'], 90, 'sided subscripts')
    ctx.floor('R-SIDE/S4', cnt['S4'], 100, 'sided validator labels')
    ctx.floor('R-SIDE/S7', cnt['S7'], 80, 'one-table helper calls')
    ctx.floor('R-SIDE/S5', cnt['S5'], 5, 'sided guards')
    ctx.floor('R-SIDE/S6', cnt['S6'], 35, 'sided column lookups')
    # positive fixture
    fx = ast.parse("def g(ltable, rtable, l_key_attr, r_key_attr):\n    l_idx = r_key_attr\n    x = l_row[r_idx]\n").body[0]
    hits = 0
    for n in ast.walk(fx):
        if isinstance(n, ast.Assign) and isinstance(n.targets[0], ast.Name) and side_of_name(n.targets[0].id) \
                and expr_side(n.value) and expr_side(n.value) != side_of_name(n.targets[0].id):
            hits += 1
        if isinstance(n, ast.Subscript) and expr_side(n.value) and expr_side(n.slice) and expr_side(n.value) != expr_side(n.slice):
            hits += 1
    if hits != 2:
        raise AnalysisError('R-SIDE cannot see its positive fixture')
