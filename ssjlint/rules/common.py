"""Shared anchors and helpers for the rule modules."""
import ast

from .. import AnalysisError
from ..flow import view_of
from ..model import U

P = 'py_stringsimjoin/'
FILTER_UTILS = P + 'filter/filter_utils.py'
GENERIC = P + 'utils/generic_helper.py'
MISSING = P + 'utils/missing_value_handler.py'
VALIDATION = P + 'utils/validation.py'
TOKORD = P + 'utils/token_ordering.py'
SIMFUN = P + 'utils/simfunctions.py'
CONVERTER = P + 'utils/converter.py'
PROFILER = P + 'profiler/profiler.py'
MATCHER = P + 'matcher/apply_matcher.py'
FILTER_BASE = P + 'filter/filter.py'
SET_SIM_JOIN = P + 'join/set_sim_join.py'

MEASURES = ['COSINE', 'DICE', 'EDIT_DISTANCE', 'JACCARD', 'OVERLAP']
SET_MEASURES = ['COSINE', 'DICE', 'JACCARD']

FILTERS = {
    'SizeFilter': (P + 'filter/size_filter.py', P + 'index/size_index.py', 'SizeIndex'),
    'PrefixFilter': (P + 'filter/prefix_filter.py', P + 'index/prefix_index.py', 'PrefixIndex'),
    'PositionFilter': (P + 'filter/position_filter.py', P + 'index/position_index.py', 'PositionIndex'),
    'SuffixFilter': (P + 'filter/suffix_filter.py', None, None),
    'OverlapFilter': (P + 'filter/overlap_filter.py', P + 'index/inverted_index.py', 'InvertedIndex'),
}

# join entry point -> (module, function, measure literal, worker (module, function))
JOINS = {
    'jaccard': (P + 'join/jaccard_join_py.py', 'jaccard_join_py', 'JACCARD', (SET_SIM_JOIN, 'set_sim_join')),
    'cosine': (P + 'join/cosine_join_py.py', 'cosine_join_py', 'COSINE', (SET_SIM_JOIN, 'set_sim_join')),
    'dice': (P + 'join/dice_join_py.py', 'dice_join_py', 'DICE', (SET_SIM_JOIN, 'set_sim_join')),
    'overlap_coefficient': (P + 'join/overlap_coefficient_join_py.py', 'overlap_coefficient_join_py',
                            'OVERLAP_COEFFICIENT',
                            (P + 'join/overlap_coefficient_join_py.py', '_overlap_coefficient_join_split')),
    'edit_distance': (P + 'join/edit_distance_join_py.py', 'edit_distance_join_py', 'EDIT_DISTANCE',
                      (P + 'join/edit_distance_join_py.py', '_edit_distance_join_split')),
    'overlap': (P + 'join/overlap_join_py.py', 'overlap_join_py', 'OVERLAP', None),
}


def expander(view, depth=12, stop=None, keep=()):
    def ex(expr, stmt):
        return view.expand(expr, stmt, depth=depth, stop=stop, keep=keep)
    return ex


def call_name(call):
    f = call.func
    if isinstance(f, ast.Name):
        return f.id
    if isinstance(f, ast.Attribute):
        return f.attr
    return None


def is_call(node, *names):
    return isinstance(node, ast.Call) and call_name(node) in names


def walk_own(fnode):
    """ast.walk restricted to the function's own body (nested defs / lambdas excluded)."""
    todo = list(ast.iter_child_nodes(fnode))
    while todo:
        n = todo.pop(0)
        yield n
        if isinstance(n, (ast.FunctionDef, ast.ClassDef, ast.Lambda)):
            continue
        todo.extend(ast.iter_child_nodes(n))


def calls_to(repo, f, *names):
    """Call nodes in f whose resolved repo callee (or bare attribute name) is one of names."""
    out = []
    for c in repo.calls_in(f):
        r = repo.resolve_call(f, c)
        if r is not None and r[0].name in names:
            out.append((c, r))
        elif r is None and call_name(c) in names:
            out.append((c, None))
    return out


def strip_self(expr):
    """`self.x` -> `x` (so a method's view of a field and a worker's `filter.x` compare equal
    after the caller maps the receiver)."""
    class T(ast.NodeTransformer):
        def visit_Attribute(s, n):
            s.generic_visit(n)
            if isinstance(n.value, ast.Name) and n.value.id == 'self':
                return ast.copy_location(ast.Name(id=n.attr, ctx=ast.Load()), n)
            return n
    import copy
    return T().visit(copy.deepcopy(expr))


def subst_names(expr, mapping):
    """Replace Name/`recv.attr` occurrences by expressions (mapping: text -> ast expr)."""
    import copy

    class T(ast.NodeTransformer):
        def visit_Name(s, n):
            if n.id in mapping and isinstance(n.ctx, ast.Load):
                return copy.deepcopy(mapping[n.id])
            return n

        def visit_Attribute(s, n):
            k = U(n)
            if k in mapping:
                return copy.deepcopy(mapping[k])
            return s.generic_visit(n)
    return T().visit(copy.deepcopy(expr))


def parse_expr(src):
    return ast.parse(src, mode='eval').body


def require(cond, msg):
    if not cond:
        raise AnalysisError(msg)


def mask_list_name(f, default='valid_rows'):
    """the Boolean mask of _filter_candset_split by its role: the name the candidate set is indexed with in the return"""
    import ast as _ast
    for n in _ast.walk(f.node):
        if isinstance(n, _ast.Return) and isinstance(n.value, _ast.Subscript) and isinstance(n.value.value, _ast.Name) \
                and f.params and n.value.value.id == f.params[0] and isinstance(n.value.slice, _ast.Name):
            return n.value.slice.id
    return default
