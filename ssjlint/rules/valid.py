"""R-VALID: documented preconditions are checked, unconditionally, first, on the right argument.

V1 every obligation of an entry point (validator x argument roles, from the docstrings) is
   present - directly or through a constructor/method it calls - with the obligation's arguments
   written over the entry point's own parameters, and it runs whenever it is needed (its path
   condition is implied by the obligation's `when`, by default unconditionally);
V2 check-before-use: validate_input_table(X) dominates every X.columns / X[..];
   validate_attr(a, X.columns, ..) dominates every X[a];
V3 every obligation dominates the first effect: tokenizer flag writes and calls of repository
   functions that do work (loops, transitively; validators excluded)."""
import ast

from .. import AnalysisError
from ..flow import view_of, untag
from ..fold import fold
from ..guards import Conds, Universe, f_and, to_formula, TRUE, FALSE, show
from ..model import U
from .common import (P, FILTERS, JOINS, VALIDATION, MATCHER, PROFILER, FILTER_BASE, call_name, subst_names,
                     parse_expr, walk_own)


def table_obligations(attr_kind, with_out=True, with_type=True):
    out = []
    for s, tab in (('l', 'ltable'), ('r', 'rtable')):
        attr = '%s_%s_attr' % (s, attr_kind)
        out.append(('validate_input_table', tab))
        out.append(('validate_attr', '%s_key_attr' % s, '%s.columns' % tab))
        out.append(('validate_attr', attr, '%s.columns' % tab))
        if with_type:
            out.append(('validate_attr_type', attr, '%s[%s].dtype' % (tab, attr)))
        out.append(('validate_key_attr', '%s_key_attr' % s, tab))
    if with_out:
        out.append(('validate_output_attrs', 'l_out_attrs', 'ltable.columns', 'r_out_attrs', 'rtable.columns'))
    return out


CANDSET_OBL = [('validate_input_table', 'candset'),
               ('validate_attr', 'candset_l_key_attr', 'candset.columns'),
               ('validate_attr', 'candset_r_key_attr', 'candset.columns')]


def join_obligations(measure, attr_kind='join'):
    o = table_obligations(attr_kind)
    if measure == 'EDIT_DISTANCE':
        o.append(('validate_tokenizer_for_sim_measure', 'tokenizer', "'EDIT_DISTANCE'"))
    else:
        o.append(('validate_tokenizer', 'tokenizer'))
    o.append(('validate_threshold', 'threshold', repr(measure)))
    o.append(('validate_comp_op_for_sim_measure', 'comp_op', repr(measure)))
    return o


def entry_points(repo):
    """-> list of (FuncInfo, [obligation tuples], {obligation index: when-formula source})"""
    eps = []
    for name, (path, qual, measure, _) in sorted(JOINS.items()):
        eps.append((repo.fn(path, qual), join_obligations(measure), {}))
    for cls, (path, _, _) in sorted(FILTERS.items()):
        if cls == 'OverlapFilter':
            eps.append((repo.fn(path, cls + '.__init__'),
                        [('validate_tokenizer', 'tokenizer'), ('validate_threshold', 'overlap_size', "'OVERLAP'"),
                         ('validate_comp_op_for_sim_measure', 'comp_op', "'OVERLAP'")], {}))
        else:
            eps.append((repo.fn(path, cls + '.__init__'),
                        [('validate_sim_measure_type', 'sim_measure_type'),
                         ('validate_tokenizer_for_sim_measure', 'tokenizer', 'sim_measure_type.upper()'),
                         ('validate_threshold', 'threshold', 'sim_measure_type.upper()')], {}))
        eps.append((repo.fn(path, cls + '.filter_tables'), table_obligations('filter'), {}))
    eps.append((repo.fn(FILTER_BASE, 'Filter.filter_candset'),
                CANDSET_OBL + table_obligations('filter', with_out=False), {}))
    mo = CANDSET_OBL + table_obligations('match', with_type=False) + [('validate_tokenizer', 'tokenizer'),
                                                                       ('validate_comp_op', 'comp_op')]
    eps.append((repo.fn(MATCHER, 'apply_matcher'), mo, {('validate_tokenizer', 'tokenizer'): 'tokenizer is not None'}))
    eps.append((repo.fn(PROFILER, 'profile_table_for_join'),
                [('validate_input_table', 'input_table'), ('validate_attr', '*', 'input_table.columns')],
                {('validate_attr', '*', 'input_table.columns'): 'profile_attrs is not None'}))
    return eps


class Instance(object):
    def __init__(self, name, args, cond, stmt, chain):
        self.name, self.args, self.cond, self.stmt, self.chain = name, args, cond, stmt, chain

    def key(self, n):
        return (self.name,) + tuple(self.args[:n])


def collect(repo, f, env=None, depth=2, top_stmt=None, top_cond=TRUE, chain=()):
    """Validator call instances reachable from f, arguments rewritten over the entry's parameters."""
    env = env or {}
    from ..normalise import unrolled
    f = unrolled(repo, f)
    repo = f.module.repo
    view = view_of(f)

    def ex(e, st):
        return fold(subst_names(view.expand(e, st), env))
    conds = Conds(f.node, ex)
    out = []
    for call in repo.calls_in(f):
        r = repo.resolve_call(f, call)
        if r is None:
            continue
        callee, kind, bound = r
        st = view.stmt_of(call)
        cond = f_and(top_cond, conds.of(st))
        if callee.module.relpath == VALIDATION and callee.name.startswith('validate_'):
            args = [U(ex(a, st)) for a in bound.values()]
            out.append(Instance(callee.name, args, cond, top_stmt if top_stmt is not None else st,
                                chain + (f.qual,)))
        elif depth > 0 and (kind in ('ctor', 'method') or callee.module is f.module or 'valid' in callee.name):
            env2 = {p: (a if callee.defaults.get(p) is a else ex(a, st)) for p, a in bound.items()}
            out += collect(repo, callee, env2, depth - 1, top_stmt if top_stmt is not None else st, cond,
                           chain + (f.qual,))
    return out


def work_functions(repo):
    work = set()
    edges = {}
    from ..normalise import unrolled
    for f in repo.all_funcs():
        if f.name.startswith('validate_'):
            continue
        f = unrolled(repo, f)
        for n in walk_own(f.node):
            if isinstance(n, (ast.For, ast.While, ast.ListComp, ast.GeneratorExp, ast.DictComp)):
                work.add(f.where)
        if f.name in ('convert_dataframe_to_array',):
            work.add(f.where)
        for c in repo.calls_in(f):
            for r in repo.resolve_call_all(f, c):
                if r is not None:
                    edges.setdefault(f.where, set()).add(r[0].where)
    changed = True
    while changed:
        changed = False
        for a, bs in edges.items():
            if a not in work and bs & work:
                f_is_validator = a.split(':')[-1].startswith('validate_')
                if not f_is_validator:
                    work.add(a)
                    changed = True
    return work


def _guard_dominates(f, view, vstmt, st):
    """a conditional obligation: the `if` (or loop) guarding the validator dominates the effect, which lies
    outside it"""
    for n in walk_own(f.node):
        if isinstance(n, (ast.If, ast.For)) and any(x is vstmt for b in (n.body, n.orelse) for y in b for x in ast.walk(y)):
            inside = any(x is st for b in (n.body, n.orelse) for y in b for x in ast.walk(y))
            if not inside and view.dominates(n, st):
                return True
    return False


def run(ctx, only=None):
    ctx.group('R-VALID')
    repo = ctx.repo
    if only is None:
        check_output_attr_validator(ctx)
    work = work_functions(repo)
    n_obl = 0
    for f, obligations, whens in entry_points(repo):
        if only is not None and f.name not in only:
            continue
        view = view_of(f)
        insts = collect(repo, f)
        # ---- V1
        present = {}
        for ob in obligations:
            n_obl += 1
            n = len(ob) - 1
            hits = [i for i in insts if i.name == ob[0] and all(w == '*' or w == a for w, a in zip(ob[1:], i.args[:n]))]
            key = '%s(%s)' % (ob[0], ', '.join(ob[1:]))
            if not ctx.check('R-VALID/V1-present', f, key, bool(hits),
                             'documented precondition check %s is missing (validator calls found: %s)'
                             % (key, sorted(set('%s(%s)' % (i.name, ', '.join(i.args[:2])) for i in insts if i.name == ob[0]))),
                             f.node, sample='found via %s' % (' -> '.join(hits[0].chain) if hits else '-')):
                continue
            present[ob] = hits
            when = whens.get(ob)
            want = to_formula(parse_expr(when)) if when else TRUE
            uni = Universe()
            # the check must run whenever `when` holds: when => OR(cond of the hits)
            from ..guards import f_or
            anyc = f_or(*[h.cond for h in hits])
            w = uni.implies(want, anyc)
            ctx.check('R-VALID/V1-unconditional', f, key, w is None,
                      '%s only runs when %s - it must run %s' % (key, show(anyc), 'whenever ' + when if when else 'always'),
                      hits[0].stmt, sample='runs under %s' % show(anyc))
        # ---- V3: obligations dominate the first effects
        effects = []
        for call in repo.calls_in(f):
            st = view.stmt_of(call)
            # (the tokenizer flag flip is a transient effect whose undoing on every exit is R-FLAG's business)
            if isinstance(call.func, ast.Call) and call_name(call.func) == 'Parallel':
                effects.append((st, 'Parallel(...)'))
                continue
            for r in repo.resolve_call_all(f, call):
                if r is not None and r[0].where in work and not r[0].name.startswith('validate_'):
                    # a constructor/method that itself carries obligations is not an effect
                    if any(h.stmt is st for hs in present.values() for h in hs):
                        continue
                    effects.append((st, r[0].qual))
        seen_eff = set()
        for ob, hits in present.items():
            key = '%s(%s)' % (ob[0], ', '.join(ob[1:]))
            bad = None
            for st, what in effects:
                if any(h.stmt is st for h in hits):
                    continue
                if not any(view.dominates(h.stmt, st) or (ob in whens and _guard_dominates(f, view, h.stmt, st))
                           for h in hits):
                    bad = (st, what)
                    break
            ctx.check('R-VALID/V3-first', f, key, bad is None,
                      '%s does not run before `%s` (line %s): arguments are rejected only after work has started'
                      % (key, bad[1] if bad else '', getattr(bad[0], 'lineno', '?') if bad else ''),
                      bad[0] if bad else f.node, sample='dominates %d effect statements' % len(effects))
        # ---- V2: check before use
        for ob, hits in present.items():
            direct = [h for h in hits if len(h.chain) == 1]
            if not direct:
                continue
            if ob[0] == 'validate_input_table':
                x = ob[1]
                uses = [n for n in walk_own(f.node)
                        if (isinstance(n, ast.Attribute) and isinstance(n.value, ast.Name) and n.value.id == x) or
                        (isinstance(n, ast.Subscript) and isinstance(n.value, ast.Name) and n.value.id == x)]
                label = '%s used as a DataFrame' % x
            elif ob[0] == 'validate_attr' and ob[2].endswith('.columns') and ob[1] != '*':
                a, x = ob[1], ob[2][:-len('.columns')]
                uses = [n for n in walk_own(f.node)
                        if isinstance(n, ast.Subscript) and isinstance(n.value, ast.Name) and n.value.id == x
                        and isinstance(n.slice, ast.Name) and n.slice.id == a]
                label = '%s[%s]' % (x, a)
            else:
                continue
            bad = None
            for u in uses:
                st = view.stmt_of(u)
                if any(h.stmt is st for h in direct):
                    continue
                if not any(view.dominates(h.stmt, st) for h in direct):
                    bad = u
                    break
            key = '%s(%s)' % (ob[0], ', '.join(ob[1:]))
            ctx.check('R-VALID/V2-before-use', f, key, bad is None,
                      '%s at line %s is not preceded by %s: an invalid argument fails with the wrong exception'
                      % (label, getattr(bad, 'lineno', '?'), key), bad if bad is not None else f.node,
                      sample='%d uses of %s dominated' % (len(uses), label))
    ctx.floor('R-VALID', n_obl, 150 if only is None else 2, 'obligations')


def check_output_attr_validator(ctx):
    """validate_output_attrs raises exactly when a requested output attribute is not a column of its own table: for each
    side one loop over the side's attribute list, entered whenever the list is given, raising iff `attr not in <columns
    of that side>`"""
    from ..side import side_of_name
    from ..guards import Conds, Universe, to_formula, show
    from .common import parse_expr
    repo = ctx.repo
    f = repo.fn(VALIDATION, 'validate_output_attrs')
    from ..normalise import normalised_repo
    if not [n for n in walk_own(f.node) if isinstance(n, ast.For)]:
        r2 = normalised_repo(repo, VALIDATION, 'validate_output_attrs', only=lambda nm: nm.startswith('_'))
        if r2 is not None:
            f = r2.fn(VALIDATION, 'validate_output_attrs')
    vw = view_of(f)
    conds = Conds(f.node, lambda e, st: untag(vw.expand(e, st)))
    seen = set()
    for lp in [n for n in walk_own(f.node) if isinstance(n, ast.For)]:
        it = untag(view_of(f).expand(lp.iter, lp))
        side = side_of_name(U(it)) if isinstance(it, ast.Name) else None
        if side is None or not isinstance(lp.target, ast.Name):
            continue
        var = lp.target.id
        raises = [n for n in ast.walk(lp) if isinstance(n, ast.Raise)]
        ok = len(raises) == 1
        why = 'expected one raise in the loop over %s' % U(it)
        if ok:
            c_in = conds.of(raises[0])
            c_loop = conds.of(lp)
            # entering: whenever the list is given
            okg = any(Universe().equivalent(c_loop, to_formula(parse_expr(x))) is None for x in (U(it), '%s is not None' % U(it), 'True'))
            cols = [p_ for p_ in f.params if side_of_name(p_) == side and p_ != U(it)]
            want = to_formula(parse_expr('%s not in %s' % (var, cols[0]))) if cols else None
            from ..guards import f_and
            oki = want is not None and Universe().equivalent(c_in, f_and(c_loop, want)) is None
            ok = okg and oki
            why = 'the %s output attributes are rejected under `%s` (loop entered under `%s`); an attribute must be rejected ' \
                  'exactly when it is not a column of the %s table' % ('left' if side == 'L' else 'right', show(c_in)[:100], show(c_loop)[:60],
                                                                      'left' if side == 'L' else 'right')
        seen.add(side)
        ctx.check('R-VALID/output-attrs', f, 'side %s' % side, ok, why, lp, sample='raise iff attr not in the columns of that side')
    ctx.check('R-VALID/output-attrs', f, 'both sides', seen == {'L', 'R'}, 'output attributes of %s are not validated at all'
              % sorted({'L', 'R'} - seen), f.node, nontrivial=False)
