"""R-DT: decision tables of loop-free decision code, compared with reference tables as Boolean
functions (order, nesting and polarity of the `if`s are irrelevant).

The reference is a small Python function over the same parameters; `return ANY` marks the part of
the input space the reference leaves open (used for the heads of the filter_pair functions whose
tails are algorithmic). Both sides are expanded through reaching definitions, decomposed into atoms
and evaluated on every assignment of the joint atom universe; outcomes are compared as truth values
(Boolean returns), rational normal forms (numeric returns) or exception types."""
import ast

from .. import AnalysisError
from ..flow import view_of, untag as untag_, FuncView
from ..guards import Conds, Universe, to_formula, outcomes, show_asg, literals, TRUE, show
from ..model import U, ModInfo, FuncInfo
from ..paths import enumerate_paths, symexec
from ..symx import Norm, Unsupported
from .common import (P, FILTERS, VALIDATION, GENERIC, expander, walk_own, call_name, parse_expr)

HEAD = '''
def ref(self, lstring, rstring):
    if pd.isnull(lstring) or pd.isnull(rstring):
        return not self.allow_missing
    if len(self.tokenizer.tokenize(lstring)) == 0 and len(self.tokenizer.tokenize(rstring)) == 0:
        if self.sim_measure_type == 'OVERLAP':
            return True
        elif self.sim_measure_type == 'EDIT_DISTANCE':
            return False
        else:
            return not self.allow_empty
    return ANY
'''

SIZE_PAIR = '''
def ref(self, lstring, rstring):
    if pd.isnull(lstring) or pd.isnull(rstring):
        return not self.allow_missing
    if len(self.tokenizer.tokenize(lstring)) == 0 and len(self.tokenizer.tokenize(rstring)) == 0:
        if self.sim_measure_type == 'OVERLAP':
            return True
        elif self.sim_measure_type == 'EDIT_DISTANCE':
            return False
        else:
            return not self.allow_empty
    return not (get_size_lower_bound(len(self.tokenizer.tokenize(lstring)), self.sim_measure_type, self.threshold)
                <= len(self.tokenizer.tokenize(rstring))
                <= get_size_upper_bound(len(self.tokenizer.tokenize(lstring)), self.sim_measure_type, self.threshold))
'''

OVERLAP_PAIR = '''
def ref(self, lstring, rstring):
    if pd.isnull(lstring) or pd.isnull(rstring):
        return not self.allow_missing
    if not lstring or not rstring:
        return True
    return not COMP_OP_MAP[self.comp_op](overlap(self.tokenizer.tokenize(lstring), self.tokenizer.tokenize(rstring)),
                                         self.overlap_size)
'''

VALIDATORS = {
    'validate_input_table': '''
def ref(table, table_label):
    if not isinstance(table, pd.DataFrame):
        raise TypeError()
    return True
''',
    'validate_attr': '''
def ref(attr, table_cols, attr_label, table_label):
    if attr not in table_cols:
        raise AssertionError()
    return True
''',
    'validate_threshold': '''
def ref(threshold, sim_measure_type):
    if sim_measure_type == 'EDIT_DISTANCE':
        if threshold < 0:
            raise AssertionError()
    elif sim_measure_type == 'OVERLAP':
        if threshold <= 0:
            raise AssertionError()
    else:
        if threshold <= 0 or threshold > 1:
            raise AssertionError()
    return True
''',
    'validate_tokenizer': '''
def ref(tokenizer):
    if not isinstance(tokenizer, Tokenizer):
        raise TypeError()
    return True
''',
    'validate_tokenizer_for_sim_measure': '''
def ref(tokenizer, sim_measure_type):
    if not isinstance(tokenizer, Tokenizer):
        raise TypeError()
    if sim_measure_type == 'EDIT_DISTANCE':
        if not isinstance(tokenizer, QgramTokenizer):
            raise AssertionError()
    return True
''',
    'validate_sim_measure_type': '''
def ref(sim_measure_type):
    if sim_measure_type.upper() not in ['COSINE', 'DICE', 'EDIT_DISTANCE', 'JACCARD', 'OVERLAP']:
        raise TypeError()
    return True
''',
    'validate_comp_op_for_sim_measure': '''
def ref(comp_op, sim_measure_type):
    if sim_measure_type == 'EDIT_DISTANCE':
        if comp_op not in ['<=', '<', '=']:
            raise AssertionError()
    else:
        if comp_op not in ['>=', '>', '=']:
            raise AssertionError()
    return True
''',
    'validate_comp_op': '''
def ref(comp_op):
    if comp_op not in COMP_OP_MAP.keys():
        raise AssertionError()
    return None
''',
    'validate_key_attr': '''
def ref(key_attr, table, table_label):
    if not (len(table[key_attr].unique()) == len(table) and sum(table[key_attr].isnull()) == 0):
        raise AssertionError()
    return True
''',
}

NUM_PROCS = '''
def ref(n_jobs):
    if n_jobs < 0:
        return max(multiprocessing.cpu_count() + 1 + n_jobs, 1)
    return max(n_jobs, 1)
'''


def ref_func(src, like):
    m = ModInfo('ref', 'ref.py', src)
    m.imports = dict(like.module.imports)
    node = [n for n in m.tree.body if isinstance(n, ast.FunctionDef)][0]
    return FuncInfo(m, node)


def truthify(e):
    """len(E) > 0 / >= 1 / != 0  ->  E ;  len(E) == 0 / <= 0 / < 1  ->  not E ; A.intersection(B) -> A & B"""
    import copy

    class T(ast.NodeTransformer):
        def visit_Compare(s, n):
            n = s.generic_visit(n)
            if len(n.ops) == 1 and isinstance(n.left, ast.Call) and isinstance(n.left.func, ast.Name) and n.left.func.id == 'len' \
                    and len(n.left.args) == 1 and isinstance(n.comparators[0], ast.Constant) \
                    and isinstance(n.left.args[0], (ast.Call, ast.BinOp)) \
                    and ('intersection' in U(n.left.args[0]) or isinstance(n.left.args[0], ast.BinOp)):
                op, c = type(n.ops[0]), n.comparators[0].value
                if (op, c) in ((ast.Gt, 0), (ast.GtE, 1), (ast.NotEq, 0)):
                    return n.left.args[0]
                if (op, c) in ((ast.Eq, 0), (ast.LtE, 0), (ast.Lt, 1)):
                    return ast.UnaryOp(op=ast.Not(), operand=n.left.args[0])
            return n

        def visit_Call(s, n):
            n = s.generic_visit(n)
            if isinstance(n.func, ast.Attribute) and n.func.attr == 'intersection' and len(n.args) == 1 and not n.keywords:
                return ast.BinOp(left=n.func.value, op=ast.BitAnd(), right=n.args[0])
            if isinstance(n.func, ast.Attribute) and n.func.attr == 'isdisjoint' and len(n.args) == 1 and not n.keywords:
                # A.isdisjoint(B)  ==  not (set(A) & set(B))
                def as_set(x):
                    if isinstance(x, ast.Call) and isinstance(x.func, ast.Name) and x.func.id in ('set', 'frozenset'):
                        return x
                    return ast.Call(func=ast.Name(id='set', ctx=ast.Load()), args=[x], keywords=[])
                return ast.UnaryOp(op=ast.Not(), operand=ast.BinOp(left=as_set(n.func.value), op=ast.BitAnd(), right=as_set(n.args[0])))
            return n
    return T().visit(copy.deepcopy(e))


def _table(f, mode, post=None):
    """-> list of (cond formula, kind, value expr or exception name, stmt)"""
    view = FuncView(f) if f.module.name == 'ref' else view_of(f)
    if mode == 'paths':
        cfg = view.cfg
        rows = []
        ends = [n.id for n in cfg.nodes if n.kind in ('return', 'raise')] + [cfg.exit.id]
        repo = getattr(f.module, 'repo', None)
        from .flag import RaiseAnalysis
        from ..guards import f_and, f_not
        ra = RaiseAnalysis(repo) if repo is not None else None
        for p in enumerate_paths(cfg, cfg.entry.id, set(ends), stop=set(ends)):
            ps = symexec(p)
            lits = [(to_formula(e, pol), pos) for (e, pol, _), pos in zip(ps.conds, ps.cond_pos)
                    if not (isinstance(e, ast.Call) and call_name(e) == '__iter__')]
            extra = []
            # calls of repository functions that may themselves raise (a validator delegating to a sibling)
            if ra is not None:
                for (call, st_), pos in zip(ps.events, ps.event_pos):
                    if call_name(call) in ('__store__', '__return__', '__iter__'):
                        continue
                    try:
                        res = repo._resolve(f, call, repo.local_types(f))
                    except Exception:
                        res = None
                    if res is None:
                        continue
                    callee, kind, args, kws = res
                    from ..model import bind
                    b = bind(callee, kind, args, kws)
                    for rc, desc in ra.of_func(callee, dict(b), 3, (f.where,)):
                        prefix = f_and(*[fm for fm, ps_ in lits if ps_ <= pos] + [f_not(x) for x, px in extra if px <= pos])
                        name = desc.split(' raises ')[-1].split(' at ')[0]
                        rows.append((f_and(prefix, rc), 'raise', name, st_))
                        extra.append((rc, pos))
            cond = f_and(*[fm for fm, _ in lits] + [f_not(x) for x, _ in extra])
            last = p[-1].node
            if last.kind == 'return':
                from ..paths import _sub
                v = _sub(last.ast.value, ps.env) if last.ast.value is not None else ast.Constant(None)
                rows.append((cond, 'return', v, last.ast))
            elif last.kind == 'raise':
                exc = last.ast.exc
                name = U(exc.func) if isinstance(exc, ast.Call) else (U(exc) if exc is not None else 're-raise')
                rows.append((cond, 'raise', name, last.ast))
            else:
                rows.append((cond, 'return', ast.Constant(None), f.node))
        return rows
    ex0 = expander(view)
    ex = (lambda e, st: post(ex0(e, st))) if post else ex0
    conds = Conds(f.node, ex)
    rows = []
    def split(cond, v, st):
        # a conditional expression as the returned value: one row per arm
        if isinstance(v, ast.IfExp):
            from ..guards import f_and, f_not
            t = to_formula(v.test)
            split(f_and(cond, t), v.body, st)
            split(f_and(cond, f_not(t)), v.orelse, st)
        else:
            rows.append((cond, 'return', v, st))
    for o in outcomes(f.node, conds, None):
        if o.kind == 'return':
            v = ex(o.stmt.value, o.stmt) if o.stmt.value is not None else ast.Constant(None)
            split(o.cond, v, o.stmt)
        else:
            rows.append((o.cond, 'raise', o.key, o.stmt))
    return rows


def _boolish(e):
    if isinstance(e, ast.IfExp):
        return _boolish(e.body) and _boolish(e.orelse)
    return isinstance(e, (ast.Compare, ast.BoolOp)) or (isinstance(e, ast.UnaryOp) and isinstance(e.op, ast.Not)) \
        or (isinstance(e, ast.Constant) and isinstance(e.value, bool)) \
        or (isinstance(e, ast.Call) and isinstance(e.func, ast.Subscript))


def compare_tables(ctx, rule, f, ref_src, mode='conds', key='table', int_atoms=None, fixed_enums=None, post=None):
    ref = ref_func(ref_src, f)
    impl_rows = _table(f, mode, post)
    ref_rows = _table(ref, mode, post)
    uni = Universe(int_atoms=int_atoms)
    for c, _, v, _ in impl_rows + ref_rows:
        uni.note(c)
    # Boolean-valued returns become formulas whose atoms join the universe
    def val_formula(kind, v):
        if kind == 'return' and isinstance(v, ast.AST) and _boolish(v):
            fm = to_formula(v)
            uni.note(fm)
            return fm
        return None
    impl = [(c, k, v, st, val_formula(k, v)) for c, k, v, st in impl_rows]
    refs = [(c, k, v, st, val_formula(k, v)) for c, k, v, st in ref_rows]
    keys = set()
    for c, k, v, st, fm in impl + refs:
        keys |= uni.vars_of(c)
        if fm is not None:
            keys |= uni.vars_of(fm)
    if fixed_enums:
        for var, values in fixed_enums.items():
            if 'enum:' + var in uni.vars:
                uni.vars['enum:' + var]['values'] |= set(values)
    norm = Norm()
    n = 0
    bad = None
    for asg in uni.assignments(None, sorted(keys)):
        r = [x for x in refs if uni.eval(x[0], asg)]
        i = [x for x in impl if uni.eval(x[0], asg)]
        if not r:
            continue
        rc, rk, rv, rst, rfm = r[0]
        if rk == 'return' and isinstance(rv, ast.Name) and rv.id == 'ANY':
            continue
        n += 1
        if not i:
            got = ('return', 'None (falls off the end)')
            same = rk == 'return' and isinstance(rv, ast.Constant) and rv.value is None
            ist = f.node
        else:
            ic, ik, iv, ist, ifm = i[0]
            got = (ik, U(iv) if isinstance(iv, ast.AST) else iv)
            if ik != rk:
                same = False
            elif ik == 'raise':
                same = iv == rv
            elif ifm is not None and rfm is not None:
                same = uni.eval(ifm, asg) == uni.eval(rfm, asg)
            elif (ifm is None) != (rfm is None):
                same = False
            else:
                try:
                    same = norm.visit(iv) == norm.visit(rv)
                except Unsupported:
                    same = U(iv) == U(rv)
        if not same and bad is None:
            want = (rk, U(rv) if isinstance(rv, ast.AST) else rv)
            bad = ('when %s: %s %s, documented: %s %s' % (show_asg(asg), got[0], str(got[1])[:80], want[0], str(want[1])[:80]), ist)
    ctx.check(rule, f, key, bad is None,
              'decision table differs from the documented one %s' % (bad[0] if bad else ''), bad[1] if bad else f.node,
              sample='%d assignments over %d atoms agree with the reference' % (n, len(keys)))
    if n == 0:
        raise AnalysisError('%s: decision table comparison of %s is vacuous' % (rule, f.where))


def check_filter_pairs(ctx):
    repo = ctx.repo
    for cls in ('SizeFilter', 'PrefixFilter', 'PositionFilter', 'SuffixFilter', 'OverlapFilter'):
        f = repo.fn(FILTERS[cls][0], cls + '.filter_pair')
        if cls == 'SizeFilter':
            compare_tables(ctx, 'R-DT/filter_pair', f, SIZE_PAIR, key='whole table')
        elif cls == 'OverlapFilter':
            compare_tables(ctx, 'R-DT/filter_pair', f, OVERLAP_PAIR, key='whole table')
        else:
            compare_tables(ctx, 'R-DT/filter_pair', f, HEAD, key='head (missing / both empty)')
            check_tail(ctx, cls, f)


def check_tail(ctx, cls, f):
    """Prefix/Position/Suffix filter_pair after the head: a non-positive prefix length drops the pair, and
    every other `return True` (drop) is control dependent on the technique's own test."""
    view = view_of(f)
    ex = expander(view)
    conds = Conds(f.node, ex)
    uni = Universe(int_atoms=lambda a: True)
    # the statement `if l_prefix_length <= 0 or r_prefix_length <= 0: return True`
    pls = []
    for n in walk_own(f.node):
        if isinstance(n, ast.Assign) and isinstance(n.targets[0], ast.Name) and isinstance(n.value, ast.Call):
            vx = view.expand(n.value, n)
            if isinstance(vx, ast.Call) and call_name(vx) == 'get_prefix_length':
                pls.append(n)
    if len(pls) != 2:
        raise AnalysisError('%s: expected two get_prefix_length calls' % f.where)
    names = [n.targets[0].id for n in pls]
    want = to_formula(parse_expr('%s <= 0 or %s <= 0' % (U(ex(ast.Name(id=names[0], ctx=ast.Load()), pls[1])) if False else names[0], names[1])))
    # find returns of constant True whose condition (relative to the head having passed) is that test
    found = False
    for st in conds.order:
        if isinstance(st, ast.If) and any(isinstance(x, ast.Return) for x in st.body):
            w = Universe(int_atoms=lambda a: True).equivalent(to_formula(st.test), want)
            if w is None:
                r = [x for x in st.body if isinstance(x, ast.Return)][0]
                found = isinstance(r.value, ast.Constant) and r.value.value is True
    ctx.check('R-DT/filter_pair', f, 'non-positive prefix', found,
              'the test `prefix length <= 0 on either side -> drop` is missing or altered', f.node,
              sample='if %s <= 0 or %s <= 0: return True' % tuple(names))
    if cls == 'PrefixFilter':
        # whole table: head, non-positive prefix, then drop iff the two prefixes share no token. The
        # intersection expression is taken from the implementation (its operands are checked by R-CAND/slice).
        inter = None
        for n in walk_own(f.node):
            for x in ast.walk(n) if isinstance(n, (ast.Assign, ast.Return, ast.If)) else []:
                if (isinstance(x, ast.Call) and isinstance(x.func, ast.Attribute) and x.func.attr in ('intersection', 'isdisjoint')) or \
                        (isinstance(x, ast.BinOp) and isinstance(x.op, ast.BitAnd)):
                    st_ = n
                    cand_ = truthify(view.expand(x, st_))
                    if isinstance(cand_, ast.UnaryOp) and isinstance(cand_.op, ast.Not):
                        cand_ = cand_.operand
                    if isinstance(cand_, ast.BinOp) and all(isinstance(o, ast.Call) and call_name(o) == 'set' for o in (cand_.left, cand_.right)):
                        inter = cand_
        ok = inter is not None
        if ok:
            from ..side import expr_side
            sl = [x for x in ast.walk(inter) if isinstance(x, ast.Subscript) and isinstance(x.slice, ast.Slice)]
            sides_ = sorted(str(expr_side(x.value)) for x in sl)
            ok = len(sl) == 2
        if not ok:
            ctx.check('R-DT/filter_pair', f, 'prefix overlap decision', False,
                      'PrefixFilter.filter_pair: the intersection of the two prefix token sets is not recognisable', f.node)
        else:
            lp_x = U(view.expand(pls[0].value, pls[0]))
            rp_x = U(view.expand(pls[1].value, pls[1]))
            src = HEAD.replace('    return ANY\n', '') + (
                '    if %s <= 0 or %s <= 0:\n        return True\n    return not (%s)\n' % (lp_x, rp_x, U(inter)))
            compare_tables(ctx, 'R-DT/filter_pair', f, src, key='prefix overlap decision', post=truthify,
                           int_atoms=lambda a: True)
    if cls == 'PositionFilter':
        # keep iff at least one shared prefix token survived: `if current_overlap > 0: return False` then True
        tail = [st for st in f.node.body if isinstance(st, (ast.If, ast.Return))][-2:]
        ok = len(tail) == 2 and isinstance(tail[0], ast.If) and isinstance(tail[1], ast.Return) \
            and isinstance(tail[1].value, ast.Constant) and tail[1].value.value is True
        if ok:
            w = Universe(int_atoms=lambda a: True).equivalent(to_formula(tail[0].test), to_formula(parse_expr('%s >= 1' % U(tail[0].test.left)))) \
                if isinstance(tail[0].test, ast.Compare) else 'x'
            r = [x for x in tail[0].body if isinstance(x, ast.Return)]
            ok = w is None and r and isinstance(r[0].value, ast.Constant) and r[0].value.value is False
        ctx.check('R-DT/filter_pair', f, 'position overlap decision', ok,
                  'PositionFilter.filter_pair must keep the pair iff a shared prefix token survived (overlap > 0)', f.node,
                  sample='keep iff current_overlap > 0')
        # the only early drop inside the token loop is `cur + ub < T`, ub >= 1 + min(remaining l, remaining r)
        loops = [n for n in f.node.body if isinstance(n, ast.For)]
        lp = loops[-1]
        drops = [n for n in ast.walk(lp) if isinstance(n, ast.Return)]
        ok2 = len(drops) == 1 and isinstance(drops[0].value, ast.Constant) and drops[0].value.value is True
        if ok2:
            cond = Conds(f.node, None).of(drops[0])
            lits = [(e, pol) for _, e, pol in literals(cond)]
            cmpl = [(e, pol) for e, pol in lits if isinstance(e, ast.Compare) and 'overlap_threshold' in U(e)]
            ok2 = len(cmpl) >= 1
            if ok2:
                e, pol = cmpl[-1]
                ex2 = view.expand(e, drops[0])
                # reference: current_overlap + 1 + min(l_n - l_pos - 1, r_n - r_pos - 1) < T with l_pos >= 0
                txt = U(ex2)
                u3 = Universe(int_atoms=lambda a: True)
                lhs = e.left
                ok2 = pol and isinstance(e.ops[0], ast.Lt) and 'min(' in U(view.expand(lhs, drops[0])) and 'max(' not in U(view.expand(lhs, drops[0]))
                if ok2:
                    ok2 = _position_bound_ok(ctx.repo, f, view, e, drops[0], tail[0] if ok else None)
        # the tally the keep test reads goes up by (at least) one exactly for the right-prefix tokens found in the left
        # prefix dictionary - a token that is found but not counted lets a qualifying pair be dropped
        okt = False
        whyt = 'the overlap tally was not found'
        if ok:
            cur = tail[0].test.left.id if isinstance(tail[0].test.left, ast.Name) else None
            incs = [n for n in ast.walk(lp) if isinstance(n, ast.AugAssign) and isinstance(n.target, ast.Name) and n.target.id == cur
                    and isinstance(n.op, ast.Add)]
            found_var = None
            for n in ast.walk(lp):
                if isinstance(n, ast.Assign) and isinstance(n.targets[0], ast.Name) and isinstance(n.value, ast.Call) \
                        and isinstance(n.value.func, ast.Attribute) and n.value.func.attr == 'get' and len(n.value.args) == 1:
                    found_var = n.targets[0].id
            if cur and len(incs) == 1 and found_var:
                inc = incs[0]
                c_inc = Conds(f.node, None).of(inc)
                c_loop = Conds(f.node, None).of(lp.body[0])
                pos_found = to_formula(parse_expr('%s is not None' % found_var))
                # relative to the loop body: inc runs iff found (and the pair was not dropped just before)
                has_found = any(U(e) == '%s is not None' % found_var and pol for _, e, pol in literals(c_inc)) or \
                    any(U(e) == '%s is None' % found_var and not pol for _, e, pol in literals(c_inc))
                extra = [(U(e), pol) for _, e, pol in literals(c_inc)
                         if (U(e), pol) not in [(U(e2), p2) for _, e2, p2 in literals(c_loop)]
                         and found_var not in U(e) and U(e) not in [U(x[0]) for x in cmpl]]
                okt = has_found and not extra and isinstance(inc.value, ast.Constant) and inc.value.value >= 1
                whyt = '`%s` runs under `%s`; the tally must go up for every right-prefix token found in the left prefix ' \
                       '(`%s is not None`) and only be skipped by the positional drop' % (U(inc), show(c_inc)[:100], found_var)
            init = [d for d in view.reaching(cur, lp) if d.node is not None and not any(x is d.node for x in ast.walk(lp))] if cur else []
        ctx.check('R-DT/filter_pair', f, 'overlap tally', okt, whyt, lp, sample='tally += 1 iff the token is in the left prefix')
        ctx.check('R-DT/filter_pair', f, 'positional drop', ok2,
                  'the positional early drop must be `current overlap + upper bound < required overlap` with the upper '
                  'bound the min of the two remainders', lp, sample='drop iff cur + 1 + min(rem_l, rem_r) < T')


def _position_bound_ok(repo, f, view, cmp_, drop, keep_if):
    """`cur + UB < T` with UB >= 1 + min(l_n - l_pos - 1, r_n - r_pos - 1): the roles are found structurally - T is the
    name bound to get_overlap_threshold(l_n, r_n, ..), l_pos the name bound to <dict>.get(token), r_pos the position
    counter of the right-prefix loop, cur the tally the final keep test reads"""
    from ..symx import Norm, Unsupported
    from .once import _discover_counter
    T = l_n = r_n = lpos = None
    for n in walk_own(f.node):
        if isinstance(n, ast.Assign) and isinstance(n.targets[0], ast.Name) and isinstance(n.value, ast.Call):
            if call_name(n.value) == 'get_overlap_threshold' and len(n.value.args) >= 2:
                T, l_n, r_n = n.targets[0].id, U(n.value.args[0]), U(n.value.args[1])
            if isinstance(n.value.func, ast.Attribute) and n.value.func.attr == 'get' and len(n.value.args) == 1:
                lpos = n.targets[0].id
    rpos = _discover_counter(f, view, 'rstring')
    cur = None
    if keep_if is not None and isinstance(keep_if.test, ast.Compare) and isinstance(keep_if.test.left, ast.Name):
        cur = keep_if.test.left.id
    if None in (T, l_n, r_n, lpos, rpos, cur):
        return False
    if U(cmp_.comparators[0]) != T:
        return False
    try:
        norm = Norm()
        got = norm.visit(untag_(view.expand(cmp_.left, drop, keep=(lpos, rpos, cur, l_n, r_n))))
        want = norm.visit(parse_expr('%s + 1 + min(%s - %s - 1, %s - %s - 1)' % (cur, l_n, lpos, r_n, rpos)))
        d = got.diff_const(want)
    except Unsupported:
        return False
    return d is not None and d >= 0


def check_validators(ctx):
    repo = ctx.repo
    for name, src in sorted(VALIDATORS.items()):
        f = repo.fn(VALIDATION, name)
        fixed = {'sim_measure_type': ['COSINE', 'DICE', 'EDIT_DISTANCE', 'JACCARD', 'OVERLAP', 'OVERLAP_COEFFICIENT'],
                 'comp_op': ['>=', '>', '<=', '<', '=', '!='],
                 'sim_measure_type.upper()': ['COSINE', 'DICE', 'EDIT_DISTANCE', 'JACCARD', 'OVERLAP', 'OVERLAP_COEFFICIENT']}
        compare_tables(ctx, 'R-DT/validator', f, src, mode='paths', key='table', fixed_enums=fixed)


def check_num_procs(ctx):
    f = ctx.repo.fn(GENERIC, 'get_num_processes_to_launch')
    compare_tables(ctx, 'R-DT/num-procs', f, NUM_PROCS, mode='paths', key='table', int_atoms=lambda a: True)


def check_attr_helpers(ctx):
    """remove_redundant_attrs / get_attrs_to_project (C11): key removed, repeats removed, order kept;
    join attribute not projected twice."""
    from ..paths import loop_body_paths
    repo = ctx.repo
    f = repo.fn(GENERIC, 'remove_redundant_attrs')
    view = view_of(f)
    out_p, key_p = f.params[0], f.params[1]
    loops = [n for n in walk_own(f.node) if isinstance(n, ast.For)]
    rets = [n for n in walk_own(f.node) if isinstance(n, ast.Return)]
    if len(loops) != 1:
        raise AnalysisError('%s: expected one loop' % f.where)
    lp = loops[0]
    var = lp.target.id if isinstance(lp.target, ast.Name) else None
    ok_iter = isinstance(lp.iter, ast.Name) and lp.iter.id == out_p
    res = None
    bad = None
    n_app = 0
    for p, how in loop_body_paths(view, lp):
        ps = symexec(p)
        result_names = set(r.value.id for r in rets if isinstance(r.value, ast.Name) and r.value.id != out_p)
        allc = [(c, st) for c, st in ps.events if isinstance(c.func, ast.Attribute) and c.func.attr in ('append', 'add', 'insert')
                and isinstance(st, ast.Expr)]
        apps = [(c, st) for c, st in allc if isinstance(st.value.func.value, ast.Name) and st.value.func.value.id in result_names]
        marks = [c for c, st in allc if not (isinstance(st.value.func.value, ast.Name) and st.value.func.value.id in result_names)]
        stores = [c for c, st in ps.events if call_name(c) == '__store__']
        from ..guards import f_and
        cond = f_and(*[to_formula(e, pol) for e, pol, _ in ps.conds if not (isinstance(e, ast.Call) and call_name(e) == '__iter__')])
        uni = Universe()
        notkey = to_formula(parse_expr('%s != %s' % (var, key_p)))
        if apps:
            n_app += 1
            c, st = apps[0]
            res = st.value.func.value.id if isinstance(st.value.func.value, ast.Name) else None
            if len(apps) != 1 or U(c.args[-1]) != var or c.func.attr != 'append':
                bad = bad or 'appends `%s`' % U(c)
            if uni.implies(cond, notkey) is not None:
                bad = bad or 'an attribute equal to the key attribute can be kept'
            if not any(var in U(s.args[0]) for s in stores) and not any(U(cc.args[0]) == var for cc in marks):
                bad = bad or 'a kept attribute is not remembered as seen (repeats survive)'
            seen_lits = [e for _, e, _ in literals(cond) if var in U(e) and key_p not in U(e)]
            if not seen_lits:
                bad = bad or 'no test whether the attribute was seen before'
        elif how == 'next':
            pass
    ret_ok = any(isinstance(r.value, ast.Name) and r.value.id == res for r in rets) and \
        any(isinstance(r.value, ast.Name) and r.value.id == out_p for r in rets)
    init = [d for d in view.reaching(res, lp) if d.node is not None] if res else []
    init_ok = bool(init) and all(isinstance(d.value, ast.List) and not d.value.elts for d in init)
    ctx.check('R-DT/remove-redundant', f, 'loop', ok_iter and bad is None and n_app >= 1 and ret_ok and init_ok,
              'remove_redundant_attrs must keep, in order, each attribute that is not the key and was not seen before: %s'
              % (bad or ('iterates %s' % U(lp.iter) if not ok_iter else 'result/initialisation not recognisable')), lp,
              sample='append attr iff attr != key_attr and not seen; returns the list (None passes through)')
    # None passes through
    conds = Conds(f.node, None)
    none_ret = [r for r in rets if isinstance(r.value, ast.Name) and r.value.id == out_p]
    ok_none = False
    for r in none_ret:
        w = Universe().equivalent(conds.of(r), to_formula(parse_expr('%s is None' % out_p)))
        ok_none = ok_none or w is None
    ctx.check('R-DT/remove-redundant', f, 'None', ok_none,
              'remove_redundant_attrs(None, ..) must return None (and only then the input itself)', f.node,
              sample='returns out_attrs iff it is None')

    g = repo.fn(GENERIC, 'get_attrs_to_project')
    if not [n for n in walk_own(g.node) if isinstance(n, ast.For)]:
        # comprehension / extend(generator) form: analyse the equivalent append loop
        from ..normalise import normalised_repo
        r2 = normalised_repo(repo, GENERIC, 'get_attrs_to_project')
        if r2 is not None:
            g = r2.fn(GENERIC, 'get_attrs_to_project')
    gv = view_of(g)
    o_p, k_p, j_p = g.params[:3]
    loops = [n for n in walk_own(g.node) if isinstance(n, ast.For)]
    rets = [n for n in walk_own(g.node) if isinstance(n, ast.Return)]
    if len(loops) != 1 or len(rets) != 1 or not isinstance(rets[0].value, ast.Name):
        raise AnalysisError('%s: shape not recognisable' % g.where)
    lp = loops[0]
    var = lp.target.id
    res = rets[0].value.id
    init = [d for d in gv.reaching(res, lp) if d.node is not None]
    init_ok = len(init) == 1 and isinstance(init[0].value, ast.List) and [U(e) for e in init[0].value.elts] == [k_p, j_p]
    bad = None
    for p, how in loop_body_paths(gv, lp):
        ps = symexec(p)
        apps = [c for c, st in ps.events if isinstance(c.func, ast.Attribute) and c.func.attr == 'append']
        from ..guards import f_and
        cond = f_and(*[to_formula(e, pol) for e, pol, _ in ps.conds if not (isinstance(e, ast.Call) and call_name(e) == '__iter__')])
        ne = to_formula(parse_expr('%s != %s' % (var, j_p)))
        if apps:
            if len(apps) != 1 or U(apps[0].args[0]) != var or Universe().implies(cond, ne) is not None:
                bad = bad or 'the join attribute can be projected twice or a wrong value is appended'
        elif how == 'next':
            if Universe().implies(cond, to_formula(parse_expr('%s == %s' % (var, j_p)))) is not None:
                bad = bad or 'an output attribute other than the join attribute is not projected'
    # the loop runs exactly when output attributes were requested
    gc = Conds(g.node, None).of(lp)
    okg = any(Universe().equivalent(gc, to_formula(parse_expr(x))) is None for x in ('%s is not None' % o_p, '%s' % o_p, 'True'))
    if not okg:
        bad = bad or 'the output attributes are projected under `%s`, not whenever they are given' % show(gc)[:80]
    ctx.check('R-DT/attrs-to-project', g, 'loop', init_ok and bad is None and isinstance(lp.iter, ast.Name) and lp.iter.id == o_p,
              'get_attrs_to_project must return [key, join attribute] + every output attribute except the join attribute: %s'
              % (bad or 'initial list is %s' % [U(d.value) for d in init]), lp,
              sample='[key_attr, join_attr] + [a for a in out_attrs if a != join_attr]')


def run(ctx, pairs=True, validators=False, num_procs=False, helpers=False):
    ctx.group('R-DT')
    if pairs:
        check_filter_pairs(ctx)
    if validators:
        check_validators(ctx)
    if num_procs:
        check_num_procs(ctx)
    if helpers:
        check_attr_helpers(ctx)
