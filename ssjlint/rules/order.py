"""R-ORDER: one deterministic total token order, shared by index and probe, losing no token.

gen_token_ordering_for_tables / _for_lists
  count   the frequency store is nested in loops over every table of the table list, every row and every
          token of the row's attribute (attribute index taken from the list entry of the same table);
  total   ranks are assigned while iterating `sorted(..)` whose key is the frequency with the token text
          as tie-break (two stable passes, or one pass keyed on both) - never a raw dict/set, whose
          order would depend on insertion (row order) or hashing;
  rank    each token of that sequence receives a distinct rank (counter advanced once per token, or
          the enumerate index), stored under the token.
order_using_token_ordering
  keep    every token that has a rank is kept: the filter is `rank is not None` / `token in ordering`;
          a truthiness filter is only accepted when ranks provably start at 1;
  sorted  the result is sorted on every return path."""
import ast

from .. import AnalysisError
from ..flow import view_of
from ..guards import Conds, Universe, to_formula, f_and
from ..model import U
from ..paths import loop_body_paths, symexec
from .common import TOKORD, call_name, walk_own, parse_expr


def _key_index(k):
    """key=itemgetter(i) / lambda x: x[i] / lambda x: (x[i], x[j]) -> tuple of indices"""
    if isinstance(k, ast.Call) and call_name(k) == 'itemgetter' and all(isinstance(a, ast.Constant) for a in k.args):
        return tuple(a.value for a in k.args)
    if isinstance(k, ast.Lambda) and len(k.args.args) == 1:
        v = k.args.args[0].arg
        b = k.body

        def idx(e):
            if isinstance(e, ast.Subscript) and isinstance(e.value, ast.Name) and e.value.id == v and isinstance(e.slice, ast.Constant):
                return e.slice.value
            return None
        if isinstance(b, ast.Tuple):
            r = tuple(idx(e) for e in b.elts)
            return r if all(x is not None for x in r) else None
        i = idx(b)
        return (i,) if i is not None else None
    return None


def _sorted_chain(e):
    """sorted(sorted(X, key=k0), key=k1) ... -> list of key index tuples, outermost first; base expression"""
    keys = []
    while isinstance(e, ast.Call) and isinstance(e.func, ast.Name) and e.func.id == 'sorted' and e.args:
        kw = {k.arg: k.value for k in e.keywords}
        keys.append(_key_index(kw['key']) if 'key' in kw else ('natural',))
        e = e.args[0]
        while isinstance(e, ast.Call) and isinstance(e.func, ast.Name) and e.func.id == 'list' and len(e.args) == 1:
            e = e.args[0]
    return keys, e


def rank_start(ctx, f, view, loop):
    """-> (start value or None, rank variable name, how)"""
    if isinstance(loop.iter, ast.Call) and call_name(loop.iter) == 'enumerate' and isinstance(loop.target, ast.Tuple):
        start = 0
        if len(loop.iter.args) > 1 and isinstance(loop.iter.args[1], ast.Constant):
            start = loop.iter.args[1].value
        for k in loop.iter.keywords:
            if k.arg == 'start' and isinstance(k.value, ast.Constant):
                start = k.value.value
        return start, loop.target.elts[0].id, 'enumerate'
    return None, None, None


def check_generators(ctx):
    repo = ctx.repo
    starts = []
    for qual in ('gen_token_ordering_for_tables', 'gen_token_ordering_for_lists'):
        f = repo.fn(TOKORD, qual)
        view = view_of(f)
        # ---- count
        stores = [n for n in walk_own(f.node) if isinstance(n, ast.Assign) and isinstance(n.targets[0], ast.Subscript)
                  and isinstance(n.value, ast.BinOp) and 'get(' in U(n.value)]
        ok = len(stores) == 1
        why = 'frequency update `d[token] = d.get(token, 0) + 1` not found'
        freq = None
        if ok:
            st = stores[0]
            freq = U(st.targets[0].value)
            key = st.targets[0].slice
            from ..symx import Norm, Unsupported
            want = parse_expr('%s.get(%s, 0) + 1' % (freq, U(key)))
            try:
                norm = Norm()
                ok = norm.visit(st.value) == norm.visit(want)
            except Unsupported:
                ok = False
            why = 'frequency update is `%s`' % U(st)[:80]
            loops = []
            cur = st

            def chain(stmts, acc):
                for s in stmts:
                    if s is st:
                        return acc
                    for fld in ('body', 'orelse'):
                        sub = getattr(s, fld, None)
                        if sub:
                            r = chain(sub, acc + [s] if isinstance(s, ast.For) and fld == 'body' else acc)
                            if r is not None:
                                return r
                return None
            loops = chain(f.node.body, []) or []
            src = f.params[0]
            outer_iter = loops[0].iter if loops else None
            outer_elem = loops[0].target if loops else None
            if isinstance(outer_iter, ast.Call) and call_name(outer_iter) == 'enumerate' and len(outer_iter.args) == 1 \
                    and isinstance(outer_elem, ast.Tuple) and len(outer_elem.elts) == 2:
                outer_iter = outer_iter.args[0]
                outer_elem = outer_elem.elts[1]
            flat = isinstance(outer_iter, ast.Call) and U(outer_iter.func) in ('chain.from_iterable', 'itertools.chain.from_iterable') \
                and len(outer_iter.args) == 1 and isinstance(outer_iter.args[0], ast.Name) and outer_iter.args[0].id == src
            if ok and flat and not qual.endswith('tables'):
                pass        # for token in chain.from_iterable(token_lists): every token of every list, one loop
            elif ok:
                ok = len(loops) >= 2 and isinstance(outer_iter, ast.Name) and outer_iter.id == src
                why = 'the frequency count does not loop over every entry of `%s` (outer loop: %s)' % (
                    src, U(loops[0].iter) if loops else 'none')
            if ok and qual.endswith('tables'):
                tok_loop = loops[-1]
                it = view.expand(tok_loop.iter, tok_loop)
                tab = outer_elem.id if isinstance(outer_elem, ast.Name) else None
                row = loops[1].target.id if len(loops) > 1 and isinstance(loops[1].target, ast.Name) else None
                ok = len(loops) == 3 and isinstance(loops[1].iter, ast.Name) and loops[1].iter.id == tab \
                    and isinstance(it, ast.Call) and call_name(it) == 'tokenize' and len(it.args) == 1 \
                    and isinstance(it.args[0], ast.Subscript) and U(it.args[0].value) == row \
                    and isinstance(key, ast.Name) and key.id == tok_loop.target.id
                why = 'tokens counted are not tokenizer.tokenize(row[attribute of that table]) for every row of every table'
                if ok:
                    idx = it.args[0].slice
                    attrs = f.params[1]
                    ok = isinstance(idx, ast.Subscript) and U(idx.value) == attrs
                    why = 'the attribute index `%s` is not taken from %s[<table position>]' % (U(idx), attrs)
                    if ok:
                        k = idx.slice
                        outer = loops[0]
                        kid = k.id.split('@')[0] if isinstance(k, ast.Name) else None
                        advanced = kid is not None and any(
                            isinstance(x, ast.AugAssign) and isinstance(x.target, ast.Name) and x.target.id == kid
                            for x in outer.body)
                        enum = isinstance(outer.iter, ast.Call) and call_name(outer.iter) == 'enumerate' \
                            and isinstance(outer.target, ast.Tuple) and kid is not None and outer.target.elts[0].id == kid
                        ok = advanced or enum
                        why = 'the table position `%s` used to pick the attribute index never advances with the table loop: ' \
                              'every table is tokenized at the first table\'s attribute' % U(k)
        ctx.check('R-ORDER/count', f, 'frequency', ok, why, stores[0] if stores else f.node,
                  sample='freq[token] += 1 over all tables, rows, tokens')
        # ---- total order + rank: in this function, or in the helper it returns the result of
        rf, rview, rfreq = f, view, freq
        rets = [n for n in walk_own(f.node) if isinstance(n, ast.Return) and isinstance(n.value, ast.Call)]
        if rets and not [n for n in walk_own(f.node) if isinstance(n, ast.Assign) and isinstance(n.targets[0], ast.Subscript) and n not in stores]:
            r = repo.resolve_call(f, rets[0].value)
            if r is not None and freq is not None:
                callee, kind, b = r
                ps_ = [p_ for p_, a in b.items() if U(a) == freq]
                if len(ps_) == 1:
                    rf, rview, rfreq = callee, view_of(callee), ps_[0]
        start = _rank_part(ctx, repo, f, rf, rview, rfreq, stores if rf is f else [])
        starts.append(start)
    return starts


def _rank_part(ctx, repo, f, rf, view, freq, count_stores):
    """ranks are assigned over sorted(freq.items()) keyed on (frequency, token); each token gets its own rank.
    Accepts a loop with a store or a dict comprehension. -> first rank"""
    # locate the construction
    loop = None
    rs = None
    dcomp = None
    for n in walk_own(rf.node):
        if isinstance(n, ast.Assign) and isinstance(n.targets[0], ast.Subscript) and n not in count_stores:
            rs = n
    for n in ast.walk(rf.node):
        if isinstance(n, ast.DictComp) and len(n.generators) == 1:
            dcomp = n
    if rs is not None:
        for n in walk_own(rf.node):
            if isinstance(n, ast.For) and any(x is rs for x in ast.walk(n)):
                loop = n
        if loop is None:
            raise AnalysisError('%s: rank store is not in a loop' % rf.where)
        host = loop
        it, target = loop.iter, loop.target
        key_e, val_e = rs.targets[0].slice, rs.value
    elif dcomp is not None:
        host = view.stmt_of(dcomp)
        it, target = dcomp.generators[0].iter, dcomp.generators[0].target
        key_e, val_e = dcomp.key, dcomp.value
        if dcomp.generators[0].ifs:
            ctx.check('R-ORDER/rank', f, 'rank store', False, 'the rank comprehension filters tokens', dcomp)
    else:
        raise AnalysisError('%s: rank construction not found' % rf.where)
    start, rvar, how = None, None, None
    elem = target
    if isinstance(it, ast.Call) and call_name(it) == 'enumerate' and isinstance(target, ast.Tuple) and len(target.elts) == 2:
        start = 0
        if len(it.args) > 1 and isinstance(it.args[1], ast.Constant):
            start = it.args[1].value
        for k_ in it.keywords:
            if k_.arg == 'start' and isinstance(k_.value, ast.Constant):
                start = k_.value.value
        rvar = target.elts[0].id if isinstance(target.elts[0], ast.Name) else None
        how = 'enumerate'
        elem = target.elts[1]
        it = it.args[0]
    itx = view.expand(it, host)
    keys, base = _sorted_chain(itx)
    ok = False
    why = 'ranks are assigned while iterating `%s`, which is not sorted(...) by (frequency, token)' % U(it)[:80]
    if keys and all(k is not None for k in keys):
        flat = []
        for k in keys:
            flat += [i for i in k if i not in flat]
        base_ok = isinstance(base, ast.Call) and call_name(base) == 'items' and freq is not None and U(base.func.value) == freq
        ok = base_ok and set(flat) >= {0, 1} and flat[0] in (0, 1)
        why = 'sort keys %s over `%s` do not give a total order on (frequency, token)' % (keys, U(base)[:50])
    ctx.check('R-ORDER/total', f, 'rank iteration', ok,
              '%s: ties between equally frequent tokens would be broken by insertion (row) order' % why, host,
              sample='sorted by %s over %s.items()' % (keys, freq))
    # the key is the token component of the element, the value the rank
    key_ok = False
    if isinstance(elem, ast.Name) and isinstance(key_e, ast.Subscript) and isinstance(key_e.value, ast.Name) \
            and key_e.value.id == elem.id and isinstance(key_e.slice, ast.Constant) and key_e.slice.value == 0:
        key_ok = True
    if isinstance(elem, ast.Tuple) and isinstance(key_e, ast.Name) and isinstance(elem.elts[0], ast.Name) and key_e.id == elem.elts[0].id:
        key_ok = True
    if how == 'enumerate':
        val_ok = isinstance(val_e, ast.Name) and val_e.id == rvar
    else:
        val_ok = isinstance(val_e, ast.Name) and loop is not None
        if val_ok:
            rvar = val_e.id
            init = [d for d in view.reaching(rvar, loop) if d.node is not None and not any(x is d.node for x in ast.walk(loop))]
            if init and all(isinstance(d.value, ast.Constant) for d in init) and len(set(d.value.value for d in init)) == 1:
                start = init[0].value.value
            adv = True
            for p, hw in loop_body_paths(view, loop):
                if hw != 'next':
                    continue
                ps = symexec(p)
                if ps.counts.get(rvar, 0) != 1:
                    adv = False
                    continue
                # the step is a positive constant: ranks strictly increase along the sorted sequence
                try:
                    from ..symx import Norm, Unsupported
                    nm_ = Norm()
                    d_ = (nm_.visit(ps.env[rvar]) - nm_.visit(ast.Name(id=rvar, ctx=ast.Load()))).as_const()
                except Exception:
                    d_ = None
                if d_ is None or d_ <= 0:
                    adv = False
            val_ok = adv
    ctx.check('R-ORDER/rank', f, 'rank store', key_ok and val_ok,
              'the rank construction `%s: %s` does not give each token of the sorted sequence its own rank' % (U(key_e)[:40], U(val_e)[:40]),
              host, sample='rank of token = %s (start %s, %s)' % (rvar, start, how or 'counter'))
    return start


def check_order_using(ctx, starts):
    repo = ctx.repo
    f = repo.fn(TOKORD, 'order_using_token_ordering')
    view = view_of(f)
    toks, ordering = f.params[0], f.params[1]
    min_start = None if any(s is None for s in starts) else min(starts)
    # ---- keep condition
    kind = None      # 'exact' | 'truthy' | None
    loops = [n for n in walk_own(f.node) if isinstance(n, ast.For)]
    comps = [n for n in ast.walk(f.node) if isinstance(n, (ast.ListComp, ast.GeneratorExp, ast.SetComp))]
    where = f.node
    if len(loops) == 1 and not comps:
        lp = loops[0]
        where = lp
        var = lp.target.id if isinstance(lp.target, ast.Name) else None
        ok_iter = isinstance(lp.iter, ast.Name) and lp.iter.id == toks
        verdicts = []
        for p, how in loop_body_paths(view, lp):
            ps = symexec(p)
            apps = [c for c, st in ps.events if isinstance(c.func, ast.Attribute) and c.func.attr in ('append', 'add')]
            cond = f_and(*[to_formula(e, pol) for e, pol, _ in ps.conds if not (isinstance(e, ast.Call) and call_name(e) == '__iter__')])
            rank = '%s.get(%s)' % (ordering, var)
            exact_keep = to_formula(parse_expr('%s is not None' % rank))
            memb = to_formula(parse_expr('%s in %s' % (var, ordering)))
            truthy = to_formula(parse_expr(rank))
            if apps:
                val = U(apps[0].args[0])
                good_val = val in (rank, '%s[%s]' % (ordering, var), '%s.get(%s, None)' % (ordering, var))
                if not good_val:
                    verdicts.append('bad-value:' + val)
                elif Universe().equivalent(cond, exact_keep) is None or Universe().equivalent(cond, memb) is None:
                    verdicts.append('exact')
                elif Universe().equivalent(cond, truthy) is None:
                    verdicts.append('truthy')
                else:
                    verdicts.append('other:' + U(apps[0])[:30])
        if not ok_iter:
            kind = 'iterates %s' % U(lp.iter)
        elif verdicts and all(v == 'exact' for v in verdicts):
            kind = 'exact'
        elif verdicts and all(v in ('exact', 'truthy') for v in verdicts):
            kind = 'truthy'
        else:
            kind = 'unrecognised (%s)' % verdicts
    elif len(comps) >= 1 and not loops:
        # comprehension idioms
        c = comps[0]
        where = c
        gen = c.generators[0]
        var = gen.target.id if isinstance(gen.target, ast.Name) else None
        ok_iter = isinstance(gen.iter, ast.Name) and gen.iter.id == toks and len(c.generators) == 1
        rank = '%s.get(%s)' % (ordering, var)
        elt_ok = U(c.elt) in (rank, '%s[%s]' % (ordering, var))
        conds = [U(i) for i in gen.ifs]
        filt_none = any(isinstance(n, ast.Call) and call_name(n) == 'filter' and n.args and isinstance(n.args[0], ast.Constant)
                        and n.args[0].value is None for n in ast.walk(f.node))
        if not ok_iter or not elt_ok:
            kind = 'unrecognised comprehension `%s`' % U(c)[:60]
        elif conds in (['%s in %s' % (var, ordering)], ['%s is not None' % rank]) and not filt_none:
            kind = 'exact'
        elif (conds == [rank] or (not conds and filt_none)):
            kind = 'truthy'
        elif not conds and not filt_none and U(c.elt) == '%s[%s]' % (ordering, var):
            kind = 'exact'      # KeyError for unknown tokens, but nothing is dropped silently
        else:
            kind = 'unrecognised filter %s' % conds
    else:
        raise AnalysisError('%s: neither a single loop nor a single comprehension' % f.where)
    ok = kind == 'exact' or (kind == 'truthy' and min_start is not None and min_start >= 1)
    ctx.check('R-ORDER/keep', f, 'keep condition', ok,
              'a token is kept when its rank is %s; ranks start at %s - the token ranked 0 (the globally rarest one) '
              'would vanish from every prefix' % ('truthy' if kind == 'truthy' else kind, min_start), where,
              sample='keep iff rank is not None (%s); ranks start at %s' % (kind, min_start))
    # ---- a bag stays a bag: one rank per input token, collected in a list (a set would merge repeated q-grams and
    # the token counts the filters work with would no longer be those of the string)
    bad_set = None
    for n in ast.walk(f.node):
        if isinstance(n, (ast.SetComp, ast.Set)):
            bad_set = n
        if isinstance(n, ast.Call) and isinstance(n.func, ast.Name) and n.func.id in ('set', 'frozenset'):
            bad_set = n
        if isinstance(n, ast.Call) and isinstance(n.func, ast.Attribute) and n.func.attr == 'add':
            bad_set = n
    ctx.check('R-ORDER/bag', f, 'collection', bad_set is None,
              'the ranks are collected in a set (`%s`): a token that occurs several times (bag of q-grams) is kept once, so '
              'sizes, prefixes and overlaps are computed for another string' % (U(bad_set)[:50] if bad_set is not None else ''),
              bad_set if bad_set is not None else f.node, sample='one rank per input token, in a list')
    # ---- sorted on every return path
    rets = [n for n in walk_own(f.node) if isinstance(n, ast.Return)]
    ok_s = bool(rets)
    for r in rets:
        v = r.value
        if isinstance(v, ast.Call) and isinstance(v.func, ast.Name) and v.func.id == 'sorted':
            kw = {k.arg: k.value for k in v.keywords}
            ok_s = ok_s and 'key' not in kw and not ('reverse' in kw and not (isinstance(kw['reverse'], ast.Constant) and kw['reverse'].value is False))
            continue
        if isinstance(v, ast.Name):
            sorts = [n for n in walk_own(f.node) if isinstance(n, ast.Expr) and isinstance(n.value, ast.Call)
                     and call_name(n.value) == 'sort' and U(n.value.func.value) == v.id and not n.value.keywords]
            ok_s = ok_s and len(sorts) >= 1 and all(view.dominates(s, r) for s in sorts[:1])
            # nothing is added after the sort
            if ok_s:
                cfg = view.cfg
                sn = cfg.node_of(sorts[0])
                later = cfg.reachable(sn.id) - {sn.id}
                for nid in later:
                    a = cfg.nodes[nid].ast
                    if isinstance(a, ast.Expr) and isinstance(a.value, ast.Call) and call_name(a.value) in ('append', 'extend', 'insert') \
                            and U(a.value.func.value) == v.id:
                        ok_s = False
            continue
        ok_s = False
    ctx.check('R-ORDER/sorted', f, 'result order', ok_s,
              'the ordered token list is not sorted ascending by rank on every return path', f.node,
              sample='sorted before return')


def run(ctx):
    ctx.group('R-ORDER')
    starts = check_generators(ctx)
    check_order_using(ctx, starts)
