"""R-SUFFIX: necessary conditions for the suffix filter to be safe (part of C04's algorithmic clause).

The suffix filter drops a pair when a lower bound on the Hamming distance of the two *suffixes*
exceeds a budget. Two structural facts must hold for that to be safe; both follow from set algebra,
not from the recursion (which stays undecided):

budget  the suffixes are cut at two different prefix lengths, so a token of one suffix may sit in the
        other's prefix: |x delta y| >= |xs delta ys| - |xp| - |yp|. The budget handed to the estimator
        must therefore be at least (l + r - 2*required overlap) + l_prefix + r_prefix.
window  the admissible positions of the probe token in the other suffix are
        [mid - o - D*o_l, mid + o + D*o_r] (o = (budget - D)/2, D = |size difference|). The caller must
        pass that window unclamped at the top (clamping it to the list discards the information that
        positions beyond the end were admissible), and `_partition` may reject only when the token
        provably falls outside it: `tokens[left-1] >= probe` (left > 0) or `tokens[right] < probe` with
        right inside the list (or an empty / out-of-list window). In particular `tokens[left] > probe`
        is not a reason to reject: position `left` itself is admissible."""
import ast

from .. import AnalysisError
from ..flow import view_of
from ..guards import Conds, Universe, to_formula, f_or, show, show_asg, FALSE
from ..model import U
from ..symx import Norm, Unsupported
from .common import FILTERS, call_name, walk_own, expander, parse_expr
from . import dt as dtmod

REF_PARTITION = '''
def ref(self, tokens, probe_token, left, right):
    if right < left or left > len(tokens):
        return FAIL
    if left > 0 and tokens[left - 1] >= probe_token:
        return FAIL
    if right < len(tokens) and tokens[right] < probe_token:
        return FAIL
    return ANY
'''


def _is_fail(v):
    return isinstance(v, ast.Tuple) and len(v.elts) == 4 and isinstance(v.elts[2], ast.Constant) and v.elts[2].value == 0


def run(ctx):
    ctx.group('R-SUFFIX')
    repo = ctx.repo
    path = FILTERS['SuffixFilter'][0]
    # ---------------------------------------------------------------- budget
    f = repo.fn(path, 'SuffixFilter._filter_suffix')
    view = view_of(f)
    calls = [c for c in repo.calls_in(f) if call_name(c) == '_est_hamming_dist_lower_bound']
    if len(calls) != 1:
        raise AnalysisError('%s: estimator call not found' % f.where)
    c = calls[0]
    r = repo.resolve_call(f, c)
    if r is None:
        raise AnalysisError('%s: estimator not resolvable' % f.where)
    b = r[2]
    st = view.stmt_of(c)
    budget = view.expand(b['hamming_dist_max'], st)
    lp, rp, ln, rn = f.params[3], f.params[4], f.params[5], f.params[6]
    ok = False
    why = ''
    try:
        norm = Norm()
        got = norm.visit(budget)
        t = None
        for n in ast.walk(budget):
            if isinstance(n, ast.Call) and call_name(n) == 'get_overlap_threshold':
                t = U(n)
        if t is None:
            raise Unsupported('required overlap not part of the budget')
        ref = norm.visit(parse_expr('%s + %s - 2 * %s + %s + %s' % (ln, rn, t, lp, rp)))
        d = got.diff_const(ref)
        ok = d is not None and d >= 0
        why = 'the Hamming budget is `%s`; it must be at least l + r - 2*required_overlap + l_prefix + r_prefix because ' \
              'the suffixes are cut at different prefix lengths (difference to that bound: %s)' % (U(budget)[:120], d if d is not None else 'not constant')
    except Unsupported as e:
        why = 'budget `%s` not recognisable: %s' % (U(budget)[:80], e)
    ctx.check('R-SUFFIX/budget', f, 'hamming budget', ok, why, c, sample=U(budget)[:140])
    # the comparison against the budget: keep iff estimate <= budget
    rets = [n for n in walk_own(f.node) if isinstance(n, ast.Return)]
    # ---------------------------------------------------------------- window passed by the estimator
    g = repo.fn(path, 'SuffixFilter._est_hamming_dist_lower_bound')
    gv = view_of(g)
    pcalls = [c2 for c2 in repo.calls_in(g) if call_name(c2) == '_partition']
    if len(pcalls) != 2:
        raise AnalysisError('%s: expected two _partition calls' % g.where)
    other = None
    for c2 in pcalls:
        a = c2.args
        if len(a) == 4 and U(a[2]) != U(a[3]):
            other = c2
    if other is None:
        raise AnalysisError('%s: windowed _partition call not found' % g.where)
    st2 = gv.stmt_of(other)
    lo = other.args[2]
    hi = other.args[3]
    # o_l / o_r are selected by the size comparison: analyse both cases by substitution
    l_n, r_n, hmax = g.params[3], g.params[4], g.params[5]
    mids = [n for n in walk_own(g.node) if isinstance(n, ast.Assign) and isinstance(n.targets[0], ast.Name) and U(n.targets[0]) == U(other.args[1]).replace('_token', '')]
    mid_name = None
    for n in walk_own(g.node):
        if isinstance(n, ast.Assign) and isinstance(n.value, ast.Subscript) and U(n.targets[0]) == U(other.args[1]):
            mid_name = U(n.value.slice)
    if mid_name is None:
        raise AnalysisError('%s: probe position not recognisable' % g.where)

    def strip_int(e):
        while isinstance(e, ast.Call) and isinstance(e.func, ast.Name) and e.func.id in ('int', 'floor') and len(e.args) == 1:
            e = e.args[0]
        return e
    lo_core = lo
    clamp0 = False
    if isinstance(lo_core, ast.Call) and call_name(lo_core) == 'max' and len(lo_core.args) == 2:
        zs = [x for x in lo_core.args if isinstance(x, ast.Constant) and x.value == 0]
        if zs:
            clamp0 = True
            lo_core = [x for x in lo_core.args if x not in zs][0]
    lo_core, hi_core = strip_int(lo_core), strip_int(hi)
    hi_clamped = isinstance(hi, ast.Call) and call_name(hi) == 'min'
    okw = not hi_clamped
    whyw = 'the upper end of the admissible window is clamped (`%s`): positions beyond the end of the list were ' \
           'admissible, and _partition can no longer tell' % U(hi)[:80]
    if okw:
        try:
            norm = Norm()
            env_l = gv.expand(lo_core, st2)
            env_h = gv.expand(hi_core, st2)
            # the o_l/o_r names have two reaching definitions (1/0 and 0/1): compare the un-expanded form
            want_lo = norm.visit(parse_expr('%s - o - abs_diff * o_l' % mid_name))
            want_hi = norm.visit(parse_expr('%s + o + abs_diff * o_r' % mid_name))
            got_lo, got_hi = norm.visit(lo_core), norm.visit(hi_core)
            dl, dh = got_lo.diff_const(want_lo), got_hi.diff_const(want_hi)
            okw = dl is not None and dl <= 0 and dh is not None and dh >= 0
            whyw = 'the window passed to _partition is [%s, %s]; it must contain [mid - o - D*o_l, mid + o + D*o_r]' % (U(lo)[:60], U(hi)[:60])
            # o, abs_diff and the o_l/o_r selection
            defs = {}
            for n in walk_own(g.node):
                if isinstance(n, ast.Assign) and isinstance(n.targets[0], ast.Name):
                    defs.setdefault(n.targets[0].id, []).append(n)
            o_ok = 'o' in defs and len(defs['o']) == 1 and norm.visit(defs['o'][0].value) == norm.visit(parse_expr('(%s - abs_diff) / 2' % hmax))
            ad_ok = 'abs_diff' in defs and len(defs['abs_diff']) == 1 and U(defs['abs_diff'][0].value) in ('abs(%s - %s)' % (l_n, r_n), 'abs(%s - %s)' % (r_n, l_n))
            if okw and not (o_ok and ad_ok):
                okw = False
                whyw = 'the slack o = (budget - |size difference|)/2 is computed differently: o=%s, abs_diff=%s' % (
                    U(defs['o'][0].value) if 'o' in defs else '?', U(defs['abs_diff'][0].value) if 'abs_diff' in defs else '?')
            if okw:
                okw, whyw = _selection_ok(g, gv, other, l_n, r_n)
        except Unsupported as e:
            okw = False
            whyw = 'window bounds not recognisable: %s' % e
    ctx.check('R-SUFFIX/window', g, 'window passed to _partition', okw, whyw, other,
              sample='[%s, %s]' % (U(lo)[:50], U(hi)[:50]))
    # ---------------------------------------------------------------- rejections in _partition
    p = repo.fn(path, 'SuffixFilter._partition')
    ref = dtmod.ref_func(REF_PARTITION, p)
    impl_rows = dtmod._table(p, 'conds')
    ref_rows = dtmod._table(ref, 'conds')
    fi = f_or(*[r_[0] for r_ in impl_rows if r_[1] == 'return' and _is_fail(r_[2])]) if impl_rows else FALSE
    fr = f_or(*[r_[0] for r_ in ref_rows if r_[1] == 'return' and isinstance(r_[2], ast.Name) and r_[2].id == 'FAIL'])
    uni = Universe(int_atoms=lambda a: True)
    w = uni.implies(fi, fr)
    ctx.check('R-SUFFIX/reject', p, 'rejecting conditions', w is None,
              '_partition rejects although the probe token may still lie inside the admissible window, e.g. when %s '
              '(a rejection needs tokens[left-1] >= probe with left > 0, or tokens[right] < probe with right inside the '
              'list, or an empty window)' % (show_asg(w) if w else ''), p.node,
              sample='rejections imply the reference rejection conditions')
    # after a non-rejecting window test the split position is the first token >= probe: every token smaller than
    # the probe goes left (the all-smaller case must not be split by the in-window search)
    ctx.assume("the recursion of _est_hamming_dist_lower_bound (a valid lower bound of the suffixes' Hamming distance) "
               "is algorithmic and not decided")


def _selection_ok(g, gv, pcall, l_n, r_n):
    """(o_l, o_r) must be (1, 0) when the left suffix is the shorter one and (0, 1) otherwise - whatever idiom
    computes them (if/else, conditional expression, complement). Decided per path to the _partition call."""
    import copy
    from ..paths import enumerate_paths, symexec
    from ..guards import to_formula as tf
    cfg = gv.cfg
    node = cfg.node_of(gv.stmt_of(pcall))
    small = tf(parse_expr('%s < %s' % (l_n, r_n)))
    seen_cases = set()
    for p in enumerate_paths(cfg, cfg.entry.id, {node.id}, stop={node.id}, limit=4000):
        ps = symexec(p)
        for case in (True, False):
            # is this case compatible with the path? (every size comparison on the path must agree)
            compatible = True
            for e, pol, _ in ps.conds:
                if isinstance(e, ast.Compare) and l_n in U(e) and r_n in U(e) and not any(isinstance(x, ast.Constant) for x in ast.walk(e)):
                    uni = Universe(int_atoms=lambda a: True)
                    holds_when_small = uni.implies(small, tf(e, pol)) is None
                    holds_when_not = Universe(int_atoms=lambda a: True).implies(('lit', small[1], False) if small[0] == 'lit' else small, tf(e, pol)) is None
                    if case and not holds_when_small:
                        compatible = False
                    if not case and not holds_when_not:
                        compatible = False
            if not compatible:
                continue
            vals = []
            for nm in ('o_l', 'o_r'):
                e = ps.env.get(nm)
                if e is None:
                    return False, '%s is not assigned on a path to the _partition call' % nm
                v = _eval_case(e, small, case)
                if v is None:
                    return False, '%s = `%s` cannot be evaluated for the case %s %s %s' % (nm, U(e)[:60], l_n, '<' if case else '>=', r_n)
                vals.append(v)
            seen_cases.add(case)
            want = (1, 0) if case else (0, 1)
            if tuple(vals) != want:
                return False, '(o_l, o_r) = %s when %s %s %s; it must be %s: the size difference widens the window on the ' \
                              'shorter side only' % (tuple(vals), l_n, '<' if case else '>=', r_n, want)
    if seen_cases != {True, False}:
        return False, 'the selection of o_l/o_r does not cover both size orders'
    return True, ''


def _eval_case(e, small, case):
    """numeric value of e when the size comparison `small` is `case`; conditional expressions on that
    comparison are resolved, everything else must fold to a constant"""
    import copy

    class T(ast.NodeTransformer):
        def visit_IfExp(s, n):
            n = s.generic_visit(n)
            from ..guards import to_formula as tf
            t = tf(n.test)
            same = Universe(int_atoms=lambda a: True).equivalent(t, small) is None
            from ..guards import f_not
            opp = Universe(int_atoms=lambda a: True).equivalent(t, f_not(small)) is None
            if same:
                return n.body if case else n.orelse
            if opp:
                return n.orelse if case else n.body
            return n
    x = T().visit(copy.deepcopy(e))
    try:
        c = Norm().visit(x).as_const()
    except Unsupported:
        return None
    return int(c) if c is not None and c.denominator == 1 else None


def _strip_entry(c, l_n, r_n):
    """keep only the literals comparing the two suffix sizes (the enclosing early-return conditions are
    irrelevant for which of o_l/o_r is chosen)"""
    from ..guards import literals, f_and
    lits = [('lit', e, pol) for _, e, pol in literals(c) if isinstance(e, ast.Compare) and l_n in U(e) and r_n in U(e)
            and not any(isinstance(x, ast.Constant) for x in ast.walk(e))]
    seen = []
    for x in lits:
        if U(x[1]) not in [U(y[1]) for y in seen]:
            seen.append(x)
    return f_and(*seen) if seen else c
