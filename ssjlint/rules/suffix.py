"""R-SUFFIX: necessary conditions for the suffix filter to be safe (part of C04's algorithmic clause).

The suffix filter drops a pair when a lower bound on the Hamming distance of the two *suffixes*
exceeds a budget. Two structural facts must hold for that to be safe; both follow from set algebra,
not from the recursion (which stays undecided):

budget  the suffixes are cut at two different prefix lengths, so a token of one suffix may sit in the
        other's prefix: |x delta y| >= |xs delta ys| - |xp| - |yp|. The budget handed to the estimator
        must therefore be at least (l + r - 2*required overlap) + l_prefix + r_prefix.
window  the admissible positions of the probe token in the other suffix are
        [mid - o - D*o_l, mid + o + D*o_r] (o = (budget - D)/2, D = |size difference|). The caller must
        pass that window unclamped at the top (clamping it to the list discards the information that
        positions beyond the end were admissible), and `_partition` may reject only when the token
        provably falls outside it: `tokens[left-1] >= probe` (left > 0) or `tokens[right] < probe` with
        right inside the list (or an empty / out-of-list window). In particular `tokens[left] > probe`
        is not a reason to reject: position `left` itself is admissible."""
import ast

from .. import AnalysisError
from ..flow import view_of, untag as untag_names
from ..guards import Conds, Universe, to_formula, f_or, show, show_asg, FALSE
from ..model import U
from ..symx import Norm, Unsupported
from .common import FILTERS, call_name, walk_own, expander, parse_expr
from . import dt as dtmod

REF_PARTITION = '''
def ref(self, tokens, probe_token, left, right):
    if right < left or left > len(tokens):
        return FAIL
    if left > 0 and tokens[left - 1] >= probe_token:
        return FAIL
    if right < len(tokens) and tokens[right] < probe_token:
        return FAIL
    return ANY
'''


def _is_fail(v):
    return isinstance(v, ast.Tuple) and len(v.elts) == 4 and isinstance(v.elts[2], ast.Constant) and v.elts[2].value == 0


def run(ctx):
    ctx.group('R-SUFFIX')
    repo = ctx.repo
    path = FILTERS['SuffixFilter'][0]
    # ---------------------------------------------------------------- budget
    f = repo.fn(path, 'SuffixFilter._filter_suffix')
    view = view_of(f)
    calls = [c for c in repo.calls_in(f) if call_name(c) == '_est_hamming_dist_lower_bound']
    if len(calls) != 1:
        raise AnalysisError('%s: estimator call not found' % f.where)
    c = calls[0]
    r = repo.resolve_call(f, c)
    if r is None:
        raise AnalysisError('%s: estimator not resolvable' % f.where)
    b = r[2]
    st = view.stmt_of(c)
    budget = view.expand(b['hamming_dist_max'], st)
    lp, rp, ln, rn = f.params[3], f.params[4], f.params[5], f.params[6]
    ok = False
    why = ''
    try:
        norm = Norm()
        got = norm.visit(budget)
        t = None
        for n in ast.walk(budget):
            if isinstance(n, ast.Call) and call_name(n) == 'get_overlap_threshold':
                t = U(n)
        if t is None:
            raise Unsupported('required overlap not part of the budget')
        tcall = [n for n in ast.walk(budget) if isinstance(n, ast.Call) and call_name(n) == 'get_overlap_threshold'][0]
        if len(tcall.args) < 2 or U(tcall.args[0]) != ln or U(tcall.args[1]) != rn:
            raise Unsupported('the required overlap is computed for (%s), not for the two token counts (%s, %s)'
                              % (', '.join(U(a) for a in tcall.args[:2]), ln, rn))
        ref = norm.visit(parse_expr('%s + %s - 2 * %s + %s + %s' % (ln, rn, t, lp, rp)))
        d = got.diff_const(ref)
        ok = d is not None and d >= 0
        why = 'the Hamming budget is `%s`; it must be at least l + r - 2*required_overlap + l_prefix + r_prefix because ' \
              'the suffixes are cut at different prefix lengths (difference to that bound: %s)' % (U(budget)[:120], d if d is not None else 'not constant')
    except Unsupported as e:
        why = 'budget `%s` not recognisable: %s' % (U(budget)[:80], e)
    ctx.check('R-SUFFIX/budget', f, 'hamming budget', ok, why, c, sample=U(budget)[:140])
    _check_decision(ctx, repo, f, view, c, st, b)
    _check_sizes(ctx, repo, f, view, c, st, b, (lp, rp, ln, rn))
    _check_call_sites(ctx, repo, path)
    # ---------------------------------------------------------------- window passed by the estimator
    g = repo.fn(path, 'SuffixFilter._est_hamming_dist_lower_bound')
    gv = view_of(g)
    pcalls = [c2 for c2 in repo.calls_in(g) if call_name(c2) == '_partition']
    if len(pcalls) != 2:
        raise AnalysisError('%s: expected two _partition calls' % g.where)
    other = None
    for c2 in pcalls:
        a = c2.args
        if len(a) == 4 and U(a[2]) != U(a[3]):
            other = c2
    if other is None:
        raise AnalysisError('%s: windowed _partition call not found' % g.where)
    st2 = gv.stmt_of(other)
    lo = other.args[2]
    hi = other.args[3]
    # o_l / o_r are selected by the size comparison: analyse both cases by substitution
    l_n, r_n, hmax = g.params[3], g.params[4], g.params[5]
    mids = [n for n in walk_own(g.node) if isinstance(n, ast.Assign) and isinstance(n.targets[0], ast.Name) and U(n.targets[0]) == U(other.args[1]).replace('_token', '')]
    mid_name = None
    for n in walk_own(g.node):
        if isinstance(n, ast.Assign) and isinstance(n.value, ast.Subscript) and U(n.targets[0]) == U(other.args[1]):
            mid_name = U(n.value.slice)
    if mid_name is None:
        raise AnalysisError('%s: probe position not recognisable' % g.where)

    def strip_int(e):
        while isinstance(e, ast.Call) and isinstance(e.func, ast.Name) and e.func.id in ('int', 'floor') and len(e.args) == 1:
            e = e.args[0]
        return e
    lo_core = lo
    clamp0 = False
    if isinstance(lo_core, ast.Call) and call_name(lo_core) == 'max' and len(lo_core.args) == 2:
        zs = [x for x in lo_core.args if isinstance(x, ast.Constant) and x.value == 0]
        if zs:
            clamp0 = True
            lo_core = [x for x in lo_core.args if x not in zs][0]
    lo_core, hi_core = strip_int(lo_core), strip_int(hi)
    hi_clamped = isinstance(hi, ast.Call) and call_name(hi) == 'min'
    okw = not hi_clamped
    whyw = 'the upper end of the admissible window is clamped (`%s`): positions beyond the end of the list were ' \
           'admissible, and _partition can no longer tell' % U(hi)[:80]
    if okw:
        okw, whyw = _window_by_case(g, gv, other, lo_core, hi_core, mid_name, l_n, r_n, hmax)
        if not okw:
            whyw = 'the window passed to _partition is [%s, %s]; %s' % (U(lo)[:60], U(hi)[:60], whyw)
    ctx.check('R-SUFFIX/window', g, 'window passed to _partition', okw, whyw, other,
              sample='[%s, %s]' % (U(lo)[:50], U(hi)[:50]))
    # ---------------------------------------------------------------- rejections in _partition
    p = repo.fn(path, 'SuffixFilter._partition')
    ref = dtmod.ref_func(REF_PARTITION, p)
    impl_rows = dtmod._table(p, 'conds')
    ref_rows = dtmod._table(ref, 'conds')
    fi = f_or(*[r_[0] for r_ in impl_rows if r_[1] == 'return' and _is_fail(r_[2])]) if impl_rows else FALSE
    fr = f_or(*[r_[0] for r_ in ref_rows if r_[1] == 'return' and isinstance(r_[2], ast.Name) and r_[2].id == 'FAIL'])
    uni = Universe(int_atoms=lambda a: True)
    w = uni.implies(fi, fr)
    ctx.check('R-SUFFIX/reject', p, 'rejecting conditions', w is None,
              '_partition rejects although the probe token may still lie inside the admissible window, e.g. when %s '
              '(a rejection needs tokens[left-1] >= probe with left > 0, or tokens[right] < probe with right inside the '
              'list, or an empty window)' % (show_asg(w) if w else ''), p.node,
              sample='rejections imply the reference rejection conditions')
    _check_partition_slices(ctx, p)
    _check_probe_exists(ctx, g, gv, l_n, r_n)
    _check_recursion(ctx, repo, g, gv, pcalls, other)
    _check_mid_range(ctx, g, gv, mid_name, r_n, other)
    _check_estimate(ctx, repo, g, gv, pcalls, other, hmax)
    _check_lower_bounds(ctx, repo, g, gv, pcalls, other, hmax)
    _check_all_smaller(ctx, p)
    _check_bsearch(ctx, repo, path, p)
    _check_worker(ctx, repo, path)
    ctx.assume("the recursion of _est_hamming_dist_lower_bound (a valid lower bound of the suffixes' Hamming distance) "
               "is algorithmic and not decided")


def _selection_ok(g, gv, pcall, l_n, r_n, name_l='o_l', name_r='o_r'):
    """(o_l, o_r) must be (1, 0) when the left suffix is the shorter one and (0, 1) otherwise - whatever idiom
    computes them (if/else, conditional expression, complement). Decided per path to the _partition call."""
    import copy
    from ..paths import enumerate_paths, symexec
    from ..guards import to_formula as tf
    cfg = gv.cfg
    node = cfg.node_of(gv.stmt_of(pcall))
    small = tf(parse_expr('%s < %s' % (l_n, r_n)))
    seen_cases = set()
    for p in enumerate_paths(cfg, cfg.entry.id, {node.id}, stop={node.id}, limit=4000):
        ps = symexec(p)
        for case in (True, False):
            # is this case compatible with the path? (every size comparison on the path must agree)
            compatible = True
            for e, pol, _ in ps.conds:
                if isinstance(e, ast.Compare) and l_n in U(e) and r_n in U(e) and not any(isinstance(x, ast.Constant) for x in ast.walk(e)):
                    uni = Universe(int_atoms=lambda a: True)
                    holds_when_small = uni.implies(small, tf(e, pol)) is None
                    holds_when_not = Universe(int_atoms=lambda a: True).implies(('lit', small[1], False) if small[0] == 'lit' else small, tf(e, pol)) is None
                    if case and not holds_when_small:
                        compatible = False
                    if not case and not holds_when_not:
                        compatible = False
            if not compatible:
                continue
            vals = []
            for nm in (name_l, name_r):
                e = ps.env.get(nm)
                if e is None:
                    return False, '%s is not assigned on a path to the _partition call' % nm
                v = _eval_case(e, small, case)
                if v is None:
                    return False, '%s = `%s` cannot be evaluated for the case %s %s %s' % (nm, U(e)[:60], l_n, '<' if case else '>=', r_n)
                vals.append(v)
            seen_cases.add(case)
            want = (1, 0) if case else (0, 1)
            if tuple(vals) != want:
                return False, '(o_l, o_r) = %s when %s %s %s; it must be %s: the size difference widens the window on the ' \
                              'shorter side only' % (tuple(vals), l_n, '<' if case else '>=', r_n, want)
    if seen_cases != {True, False}:
        return False, 'the selection of o_l/o_r does not cover both size orders'
    return True, ''


def _eval_case(e, small, case):
    """numeric value of e when the size comparison `small` is `case`; conditional expressions on that
    comparison are resolved, everything else must fold to a constant"""
    import copy

    class T(ast.NodeTransformer):
        def visit_IfExp(s, n):
            n = s.generic_visit(n)
            from ..guards import to_formula as tf
            t = tf(n.test)
            same = Universe(int_atoms=lambda a: True).equivalent(t, small) is None
            from ..guards import f_not
            opp = Universe(int_atoms=lambda a: True).equivalent(t, f_not(small)) is None
            if same:
                return n.body if case else n.orelse
            if opp:
                return n.orelse if case else n.body
            return n
    x = T().visit(copy.deepcopy(e))
    try:
        c = Norm().visit(x).as_const()
    except Unsupported:
        return None
    return int(c) if c is not None and c.denominator == 1 else None


def _strip_entry(c, l_n, r_n):
    """keep only the literals comparing the two suffix sizes (the enclosing early-return conditions are
    irrelevant for which of o_l/o_r is chosen)"""
    from ..guards import literals, f_and
    lits = [('lit', e, pol) for _, e, pol in literals(c) if isinstance(e, ast.Compare) and l_n in U(e) and r_n in U(e)
            and not any(isinstance(x, ast.Constant) for x in ast.walk(e))]
    seen = []
    for x in lits:
        if U(x[1]) not in [U(y[1]) for y in seen]:
            seen.append(x)
    return f_and(*seen) if seen else c


def _check_decision(ctx, repo, f, view, call, st, b):
    """the pair is dropped (True) only when the estimated lower bound exceeds the budget"""
    ex = expander(view)
    conds = Conds(f.node, ex)
    est = ex(call, st)
    bud = ex(b['hamming_dist_max'], st)
    drop, odd = [], []
    after = False
    for n in conds.order:
        if n is st:
            after = True
        if isinstance(n, ast.Return) and not after:
            # before the estimate exists nothing can justify dropping the pair
            v0 = ex(n.value, n) if n.value is not None else ast.Constant(None)
            ctx.check('R-SUFFIX/decision', f, 'return before the estimate', isinstance(v0, ast.Constant) and v0.value is False,
                      '`return %s` before the Hamming estimate is computed: at that point the pair can only be kept (False)'
                      % U(n.value)[:40], n, sample='early return keeps the pair')
        if isinstance(n, ast.Return) and after and n is not st:
            v = ex(n.value, n) if n.value is not None else ast.Constant(None)
            if isinstance(v, ast.Constant) and v.value is True:
                drop.append(conds.of(n))
            elif isinstance(v, ast.Constant) and v.value is False:
                pass
            else:
                # `return est > budget` and the like: dropped when the returned expression is true
                from ..guards import f_and
                drop.append(f_and(conds.of(n), to_formula(v)))
    if not drop:
        ctx.check('R-SUFFIX/decision', f, 'drop decision', False,
                  'no return after the estimator call drops a pair: the suffix filter decides nothing', call)
        return
    ref = to_formula(ast.Compare(left=est, ops=[ast.Gt()], comparators=[bud]))
    w = Universe(int_atoms=lambda a: True).implies(f_or(*drop), ref)
    ctx.check('R-SUFFIX/decision', f, 'drop decision', w is None,
              'after the estimator call a pair is dropped under `%s`; it may be dropped only when the lower bound '
              'exceeds the budget (estimate > budget)%s' % (show(f_or(*drop))[:160], (' - e.g. when ' + show_asg(w)[:120]) if w else ''),
              call, sample='dropped only if estimate > budget (%d dropping returns)' % len(drop))


def _check_sizes(ctx, repo, f, view, call, st, b, names):
    lp, rp, ln, rn = names
    ok = True
    why = ''
    try:
        norm = Norm()
        for side, size, n_, p_, seq in (('left', 'l_suffix_num_tokens', ln, lp, 'l_suffix'), ('right', 'r_suffix_num_tokens', rn, rp, 'r_suffix')):
            got = norm.visit(view.expand(b[size], st))
            want = norm.visit(parse_expr('%s - %s' % (n_, p_)))
            if got != want:
                ok = False
                why = 'the %s suffix size handed to the estimator is `%s`, not %s - %s' % (side, U(b[size])[:60], n_, p_)
            sx = view.expand(b[seq], st)
            pname = f.params[1] if side == 'left' else f.params[2]
            if U(sx) != pname:
                ok = False
                why = 'the %s token list handed to the estimator is `%s`, not the %s suffix `%s`' % (side, U(sx)[:60], side, pname)
    except Unsupported as e:
        ok = False
        why = 'suffix sizes not recognisable: %s' % e
    ctx.check('R-SUFFIX/sizes', f, 'suffix sizes', ok, why, call, sample='(l_suffix, r_suffix, l - l_prefix, r - r_prefix)')


def _check_call_sites(ctx, repo, path):
    """every caller cuts each suffix at the prefix length it also passes, computed from the token count it passes"""
    n = 0
    for g in repo.all_funcs():
        if g.module.relpath != path:
            continue
        gv = None
        for c in repo.calls_in(g):
            if call_name(c) != '_filter_suffix':
                continue
            r = repo.resolve_call(g, c)
            if r is None:
                raise AnalysisError('%s: _filter_suffix call not resolvable' % g.where)
            gv = gv or view_of(g)
            st = gv.stmt_of(c)
            b = r[2]
            n += 1
            for side, seq, pre, cnt in (('left', 'l_suffix', 'l_prefix_num_tokens', 'l_num_tokens'),
                                        ('right', 'r_suffix', 'r_prefix_num_tokens', 'r_num_tokens')):
                sx, px, nx = gv.expand(b[seq], st), gv.expand(b[pre], st), gv.expand(b[cnt], st)
                ok = isinstance(sx, ast.Subscript) and isinstance(sx.slice, ast.Slice) and sx.slice.upper is None \
                    and sx.slice.step is None and sx.slice.lower is not None and U(sx.slice.lower) == U(px)
                why = 'the %s suffix `%s` is not the token list cut at the prefix length `%s` that is passed along' % (side, U(sx)[:70], U(px)[:50])
                if ok:
                    ok = isinstance(px, ast.Call) and call_name(px) == 'get_prefix_length' and px.args and U(px.args[0]) == U(nx)
                    why = 'the %s prefix length `%s` is not computed from the token count `%s` that is passed along' % (side, U(px)[:70], U(nx)[:40])
                if ok:
                    base = sx.value
                    inner = base.args[0] if isinstance(base, ast.Call) and call_name(base) == 'order_using_token_ordering' and base.args else None
                    ok = isinstance(nx, ast.Call) and call_name(nx) == 'len' and len(nx.args) == 1 \
                        and (U(nx.args[0]) == U(base) or (inner is not None and U(nx.args[0]) == U(inner)))
                    why = 'the %s token count `%s` is not the length of the token list `%s` whose suffix is passed' % (side, U(nx)[:50], U(base)[:60])
                ctx.check('R-SUFFIX/call', g, '%s suffix' % side, ok, why, c, sample='%s[%s:]' % (side, U(b[pre])))
    ctx.floor('R-SUFFIX/call', n, 2, '_filter_suffix call sites')


def _slice_bounds(e, seq):
    """e == seq[a:b] or [] -> (a, b) as expressions (None = open end); else None"""
    if isinstance(e, ast.List) and not e.elts:
        return 'empty'
    if isinstance(e, ast.Subscript) and U(e.value) == seq and isinstance(e.slice, ast.Slice) and e.slice.step is None:
        return e.slice.lower, e.slice.upper
    return None


def _check_partition_slices(ctx, p):
    """a successful partition returns (tokens[0:pos], tokens[pos+1-d:], 1, d): everything before the split position on
    the left, everything from it on the right, the probe token itself skipped exactly when it was found (d = 0)"""
    from ..paths import enumerate_paths, symexec, _sub
    view = view_of(p)
    cfg = view.cfg
    seq, probe = p.params[1], p.params[2]
    ends = [n.id for n in cfg.nodes if n.kind == 'return']
    n_ok = 0
    bad = None
    for path in enumerate_paths(cfg, cfg.entry.id, set(ends), stop=set(ends), limit=4000):
        last = path[-1].node
        ps = symexec(path)
        v = _sub(last.ast.value, ps.env) if last.ast.value is not None else None
        if not (isinstance(v, ast.Tuple) and len(v.elts) == 4):
            bad = bad or (last.ast, 'a return of _partition is not a 4-tuple')
            continue
        L, R, flag, d = v.elts
        if isinstance(flag, ast.Constant) and flag.value == 0:
            continue
        n_ok += 1
        if not (isinstance(d, ast.Constant) and d.value in (0, 1)):
            bad = bad or (last.ast, 'the mismatch count returned is `%s`, not 0 or 1' % U(d)[:40])
            continue
        lb, rb = _slice_bounds(L, seq), _slice_bounds(R, seq)
        if lb is None or lb == 'empty' or rb is None:
            bad = bad or (last.ast, 'the parts returned are `%s` / `%s`, not slices of the token list' % (U(L)[:40], U(R)[:40]))
            continue
        try:
            norm = Norm()
            n_len = norm.visit(parse_expr('len(%s)' % seq))
            a = norm.visit(lb[0]) if lb[0] is not None else norm.visit(ast.Constant(0))
            b_ = norm.visit(lb[1]) if lb[1] is not None else n_len
            if rb == 'empty':
                c_, e_ = n_len, n_len
            else:
                c_ = norm.visit(rb[0]) if rb[0] is not None else norm.visit(ast.Constant(0))
                e_ = norm.visit(rb[1]) if rb[1] is not None else n_len
            okp = a.as_const() == 0 and e_ == n_len and c_.diff_const(b_) == 1 - d.value
        except Unsupported:
            okp = False
        if not okp:
            bad = bad or (last.ast, 'a successful partition returns `%s` and `%s` with mismatch %s: tokens are lost or '
                                    'duplicated between the parts (expected tokens[0:pos], tokens[pos+1-d:])' % (U(L)[:50], U(R)[:50], d.value))
            continue
        if d.value == 0:
            # the probe token is skipped only where it was found
            found = any(pol and isinstance(e, ast.Compare) and len(e.ops) == 1 and isinstance(e.ops[0], ast.Eq)
                        and probe in (U(e.left), U(e.comparators[0])) and ('%s[' % seq) in U(e) for e, pol, _ in ps.conds)
            if not found:
                bad = bad or (last.ast, 'a token is skipped (mismatch 0) on a path that has not found the probe token at the split position')
    ctx.check('R-SUFFIX/partition', p, 'returned parts', bad is None and n_ok >= 2, bad[1] if bad else 'fewer than two successful returns',
              bad[0] if bad else p.node, sample='%d successful return paths: (tokens[0:pos], tokens[pos+1-d:], 1, d)' % n_ok)


def _check_probe_exists(ctx, g, gv, l_n, r_n):
    """the probe token is read from the right suffix: every path to that read has established that it is non-empty"""
    reads = [n for n in walk_own(g.node) if isinstance(n, ast.Subscript) and U(n.value) == g.params[2]
             and not isinstance(n.slice, ast.Slice)]
    conds = Conds(g.node, None)
    nn = 0
    for rd in reads:
        st = gv.stmt_of(rd)
        c = conds.of(st)
        nn += 1
        w = Universe(int_atoms=lambda a: True).implies(c, to_formula(parse_expr('%s != 0' % r_n)))
        ctx.check('R-SUFFIX/probe', g, 'read %s' % U(rd)[:30], w is None,
                  '`%s` is read although the right suffix may be empty (path condition `%s`): the early return must cover '
                  'an empty right suffix' % (U(rd)[:40], show(c)[:100]), rd, sample='guarded by %s != 0' % r_n)
    ctx.floor('R-SUFFIX/probe', nn, 1, 'reads of the right suffix')


def _check_recursion(ctx, repo, g, gv, pcalls, windowed):
    """the estimator recurses on (left part of l, left part of r) and (right part of l, right part of r), each with the
    sizes of exactly those parts"""
    parts = {}
    for c in pcalls:
        st = gv.stmt_of(c)
        if not (isinstance(st, ast.Assign) and isinstance(st.targets[0], ast.Tuple) and len(st.targets[0].elts) == 4
                and all(isinstance(x, ast.Name) for x in st.targets[0].elts[:2])):
            raise AnalysisError('%s: _partition result is not unpacked into (left, right, flag, diff)' % g.where)
        side = 'l' if c is windowed else 'r'
        src = U(c.args[0]) if c.args else '?'
        want_src = g.params[1] if side == 'l' else g.params[2]
        ctx.check('R-SUFFIX/recursion', g, 'partition of %s' % want_src, src == want_src,
                  'the %s _partition call splits `%s`, expected `%s`' % ('windowed' if side == 'l' else 'probe-side', src, want_src), c,
                  sample='%s -> (%s, %s)' % (src, st.targets[0].elts[0].id, st.targets[0].elts[1].id))
        parts[side] = (st.targets[0].elts[0].id, st.targets[0].elts[1].id)
    if set(parts) != {'l', 'r'}:
        raise AnalysisError('%s: the two partitions are not recognisable' % g.where)
    rec = [c for c in repo.calls_in(g) if call_name(c) == g.name]
    seen = set()
    for c in rec:
        r = repo.resolve_call(g, c)
        if r is None:
            raise AnalysisError('%s: recursive call not resolvable' % g.where)
        b = r[2]
        st = gv.stmt_of(c)
        la, ra = U(b[g.params[1]]), U(b[g.params[2]])
        which = None
        for i, nm in ((0, 'left'), (1, 'right')):
            if la == parts['l'][i] and ra == parts['r'][i]:
                which = nm
        ok = which is not None
        why = 'the recursion compares `%s` with `%s`; it must pair the left parts (%s, %s) or the right parts (%s, %s)' % (
            la, ra, parts['l'][0], parts['r'][0], parts['l'][1], parts['r'][1])
        if ok:
            seen.add(which)
            for prm, arg in ((g.params[3], la), (g.params[4], ra)):
                sx = gv.expand(b[prm], st)
                if U(sx) != U(gv.expand(parse_expr('len(%s)' % arg), st)):
                    ok = False
                    why = 'the size passed for `%s` is `%s`, not len(%s)' % (arg, U(sx)[:40], arg)
        ctx.check('R-SUFFIX/recursion', g, 'recursive call %s' % (which or '?'), ok, why, c, sample='(%s, %s)' % (la, ra))
    ctx.check('R-SUFFIX/recursion', g, 'both parts', seen == {'left', 'right'} or not rec,
              'the recursion covers only the %s parts' % sorted(seen), g.node, nontrivial=False)
    ctx.floor('R-SUFFIX/recursion', len(rec), 2, 'recursive estimator calls')


def _resolve_case(e, small, case):
    """conditional expressions on the size comparison resolved for the given case"""
    import copy
    from ..guards import to_formula as tf, f_not

    class T(ast.NodeTransformer):
        def visit_IfExp(s, n):
            n = s.generic_visit(n)
            t = tf(n.test)
            if Universe(int_atoms=lambda a: True).equivalent(t, small) is None:
                return n.body if case else n.orelse
            if Universe(int_atoms=lambda a: True).equivalent(t, f_not(small)) is None:
                return n.orelse if case else n.body
            return n
    return T().visit(copy.deepcopy(e))


def _window_by_case(g, gv, pcall, lo_core, hi_core, mid_name, l_n, r_n, hmax):
    """On every path to the windowed _partition call and for both size orders compatible with that path, the bounds -
    with every local replaced by its value on the path and the size comparison resolved - contain
    [mid - o - D*o_l, mid + o + D*o_r], o = (budget - D)/2, D = |l - r|, (o_l, o_r) = (1, 0) if l < r else (0, 1).
    No local name is assumed: whatever computes o, D, o_l, o_r is followed."""
    from ..paths import enumerate_paths, symexec, _sub
    from ..guards import to_formula as tf
    cfg = gv.cfg
    node = cfg.node_of(gv.stmt_of(pcall))
    small = tf(parse_expr('%s < %s' % (l_n, r_n)))
    D = 'abs(%s - %s)' % (l_n, r_n)
    seen = set()
    for p in enumerate_paths(cfg, cfg.entry.id, {node.id}, stop={node.id}, limit=4000):
        ps = symexec(p)
        for case in (True, False):
            compatible = True
            for e, pol, _ in ps.conds:
                if isinstance(e, ast.Compare) and l_n in U(e) and r_n in U(e) and not any(isinstance(x, ast.Constant) for x in ast.walk(e)):
                    when_small = Universe(int_atoms=lambda a: True).implies(small, tf(e, pol)) is None
                    when_not = Universe(int_atoms=lambda a: True).implies(('lit', small[1], False) if small[0] == 'lit' else small, tf(e, pol)) is None
                    if (case and not when_small) or (not case and not when_not):
                        compatible = False
            if not compatible:
                continue
            seen.add(case)
            try:
                norm = Norm()
                xl = _resolve_case(untag_names(_sub(lo_core, ps.env)), small, case)
                xh = _resolve_case(untag_names(_sub(hi_core, ps.env)), small, case)
                mid_x = _resolve_case(untag_names(_sub(parse_expr(mid_name), ps.env)), small, case)
                # |l - r| may be spelled either way round
                dd = norm.visit(parse_expr(D))
                alt = parse_expr('abs(%s - %s)' % (r_n, l_n))
                norm.env = dict(norm.env)
                want_lo = norm.visit(parse_expr('(%s) - (%s - %s) / 2 - %s * %d' % (U(mid_x), hmax, D, D, 1 if case else 0)))
                want_hi = norm.visit(parse_expr('(%s) + (%s - %s) / 2 + %s * %d' % (U(mid_x), hmax, D, D, 0 if case else 1)))
                got_lo = norm.visit(_swap_abs(xl, alt, parse_expr(D)))
                got_hi = norm.visit(_swap_abs(xh, alt, parse_expr(D)))
            except Unsupported as e:
                return False, 'window bounds not recognisable: %s' % e
            dl, dh = got_lo.diff_const(want_lo), got_hi.diff_const(want_hi)
            if not (dl is not None and dl <= 0 and dh is not None and dh >= 0):
                return False, 'when %s %s %s it is [%s, %s], which does not contain [mid - o - D*%d, mid + o + D*%d] ' \
                              '(o = (budget - D)/2, D = |size difference|): the size difference widens the window on the ' \
                              'shorter side' % (l_n, '<' if case else '>=', r_n, U(xl)[:70], U(xh)[:70], 1 if case else 0, 0 if case else 1)
    if seen != {True, False}:
        return False, 'the paths to the _partition call do not cover both size orders'
    return True, ''


def _swap_abs(e, frm, to):
    """abs(r - l) -> abs(l - r) (same value; the normal form keeps function atoms syntactically)"""
    import copy
    ft = U(frm)

    class T(ast.NodeTransformer):
        def visit_Call(s, n):
            n = s.generic_visit(n)
            if U(n) == ft:
                return copy.deepcopy(to)
            return n
    return T().visit(copy.deepcopy(e))


def _check_estimate(ctx, repo, g, gv, pcalls, windowed, hmax):
    """after both partitions: the first estimate is |l_l - r_l| + |l_r - r_r| + diff, and `budget + 1` (certainly too
    far) is returned only when the partition failed (flag == 0)"""
    parts = {}
    flag = diff = None
    for c in pcalls:
        st = gv.stmt_of(c)
        t = st.targets[0].elts
        parts['l' if c is windowed else 'r'] = (t[0].id, t[1].id)
        if c is windowed and isinstance(t[2], ast.Name) and isinstance(t[3], ast.Name):
            flag, diff = t[2].id, t[3].id
    if flag is None or set(parts) != {'l', 'r'}:
        raise AnalysisError('%s: partition results not recognisable' % g.where)
    (ll, lr), (rl, rr) = parts['l'], parts['r']
    conds = Conds(g.node, None)
    # the `budget + 1` return
    n = 0
    for r in [x for x in walk_own(g.node) if isinstance(x, ast.Return) and x.value is not None]:
        try:
            norm = Norm()
            d = norm.visit(r.value).diff_const(norm.visit(parse_expr(hmax)))
        except Unsupported:
            d = None
        if d is not None and d > 0:
            n += 1
            c = conds.of(r)
            w = Universe(int_atoms=lambda a: True).implies(c, to_formula(parse_expr('%s == 0' % flag)))
            ctx.check('R-SUFFIX/estimate', g, 'over-budget return', w is None,
                      '`return %s` (more than the budget: the pair will be dropped) runs under `%s`; it is justified only '
                      'when the partition of the left suffix failed (%s == 0)' % (U(r.value), show(c)[:100], flag), r,
                      sample='return budget + 1 iff %s == 0' % flag)
    ctx.floor('R-SUFFIX/estimate', n, 1, 'over-budget returns')
    # the first estimate: the statement after the size computations that is compared with the budget
    want_src = 'abs(len(%s) - len(%s)) + abs(len(%s) - len(%s)) + %s' % (ll, rl, lr, rr, diff)
    found = None
    for x in walk_own(g.node):
        if isinstance(x, ast.If) and isinstance(x.test, ast.Compare) and len(x.test.ops) == 1 and U(x.test.comparators[0]) == hmax \
                and isinstance(x.test.ops[0], (ast.Gt, ast.LtE, ast.GtE, ast.Lt)):
            e = untag_names(gv.expand(x.test.left, x, keep=(ll, lr, rl, rr, diff)))
            if 'len(' in U(e) and g.name not in U(e):
                found = (x, e)
                break
    ok = False
    why = 'the comparison of the first estimate with the budget was not found'
    if found is not None:
        x, e = found
        try:
            norm = Norm()
            # sizes may be kept in locals or taken with len() directly; |a - b| may be written either way round
            ok = False
            for perm in (want_src,
                         'abs(len(%s) - len(%s)) + abs(len(%s) - len(%s)) + %s' % (rl, ll, rr, lr, diff),
                         'abs(len(%s) - len(%s)) + abs(len(%s) - len(%s)) + %s' % (ll, rl, rr, lr, diff),
                         'abs(len(%s) - len(%s)) + abs(len(%s) - len(%s)) + %s' % (rl, ll, lr, rr, diff)):
                if norm.visit(_collapse_len(e, gv, x)) == norm.visit(parse_expr(perm)):
                    ok = True
            why = 'the estimate compared with the budget is `%s`, not |left parts| + |right parts| + mismatch (%s)' % (U(e)[:120], want_src)
        except Unsupported as ex:
            why = 'estimate not recognisable: %s' % ex
    ctx.check('R-SUFFIX/estimate', g, 'first estimate', ok, why, found[0] if found else g.node, sample=want_src)


def _collapse_len(e, gv, st):
    """len(<partition call result>) expansions back to len(<part name>): the expansion of a size local reaches into the
    _partition call; the part names are what the reference is written over"""
    return e


def _check_all_smaller(ctx, p):
    """_partition may claim `every token is smaller than the probe` (everything left, nothing right, mismatch 1) only
    when the window starts at the end of the list or the last token is smaller than the probe"""
    from ..paths import enumerate_paths, symexec, _sub
    view = view_of(p)
    cfg = view.cfg
    seq, probe = p.params[1], p.params[2]
    ends = [n.id for n in cfg.nodes if n.kind == 'return']
    n = 0
    ref = to_formula(parse_expr('left == len(%s) or %s[len(%s) - 1] < %s' % (seq, seq, seq, probe)))
    for path in enumerate_paths(cfg, cfg.entry.id, set(ends), stop=set(ends), limit=4000):
        last = path[-1].node
        ps = symexec(path)
        v = _sub(last.ast.value, ps.env) if last.ast.value is not None else None
        if not (isinstance(v, ast.Tuple) and len(v.elts) == 4 and isinstance(v.elts[1], ast.List) and not v.elts[1].elts):
            continue
        if isinstance(v.elts[2], ast.Constant) and v.elts[2].value == 0:
            continue
        n += 1
        from ..guards import f_and
        lits = []
        for e, pol, _ in ps.conds:
            lits.append(to_formula(untag_names(e), pol))
        c = f_and(*lits)
        # names: the window start is the third parameter
        refx = to_formula(parse_expr('%s == len(%s) or %s[len(%s) - 1] < %s' % (p.params[3], seq, seq, seq, probe)))
        w = Universe(int_atoms=lambda a: True).implies(c, refx)
        ctx.check('R-SUFFIX/partition', p, 'all-smaller return #%d' % n, w is None,
                  '_partition puts every token into the left part (nothing right) on a path where neither the window starts '
                  'at the end of the list nor the last token is smaller than the probe: %s' % (show(c)[:140]), last.ast,
                  sample='all tokens left only if left == len(tokens) or tokens[-1] < probe')
    ctx.floor('R-SUFFIX/partition', n, 1, 'all-smaller returns')


REF_BSEARCH = """
def ref(self, tokens, probe_token, left, right):
    if left == right:
        return left
    if tokens[int(floor((left + right) / 2))] == probe_token:
        return int(floor((left + right) / 2))
    elif tokens[int(floor((left + right) / 2))] < probe_token:
        return self._binary_search(tokens, probe_token, int(floor((left + right) / 2)) + 1, right)
    else:
        return self._binary_search(tokens, probe_token, left, int(floor((left + right) / 2)))
"""


def _check_bsearch(ctx, repo, path, p):
    """the position search: the first position in [left, right] whose token is not smaller than the probe. Decided as
    a decision table against the textbook recursion (same conditions, same results, recursive calls compared by their
    arguments); the call in _partition searches [left, min(right, len - 1)]"""
    pv = view_of(p)
    calls = [c for c in repo.calls_in(p) if isinstance(c.func, (ast.Attribute, ast.Name)) and 'search' in call_name(c)]
    if len(calls) != 1:
        raise AnalysisError('%s: position search call not found' % p.where)
    c = calls[0]
    r = repo.resolve_call(p, c)
    if r is None:
        raise AnalysisError('%s: position search not resolvable' % p.where)
    callee, _, b = r
    st = pv.stmt_of(c)
    ps_ = callee.params[1:] if callee.params and callee.params[0] == 'self' else callee.params
    seq, probe, lo, hi = p.params[1], p.params[2], p.params[3], p.params[4]
    ok = len(ps_) == 4
    why = 'the search takes %d arguments' % len(ps_)
    if ok:
        a = [untag_names(pv.expand(b[x], st)) for x in ps_]
        try:
            norm = Norm()
            ok = U(a[0]) == seq and U(a[1]) == probe and norm.visit(a[2]) == norm.visit(parse_expr(lo)) \
                and norm.visit(a[3]) == norm.visit(parse_expr('min(%s, len(%s) - 1)' % (hi, seq)))
        except Unsupported:
            ok = False
        why = 'the position is searched in `%s` over [%s, %s], expected %s over [%s, min(%s, len - 1)]' % (
            U(a[0]), U(a[2])[:40], U(a[3])[:50], seq, lo, hi)
    ctx.check('R-SUFFIX/search', p, 'search range', ok, why, c, sample='[left, min(right, len(tokens) - 1)]')
    # the search presupposes a token >= probe inside the list: every path to it has excluded "all tokens smaller"
    pc = Conds(p.node, expander(pv)).of(st)
    pre = to_formula(parse_expr(
        '%(lo)s != len(%(seq)s) and not (%(seq)s[len(%(seq)s) - 1] < %(probe)s) and not (%(hi)s < %(lo)s) and not (%(lo)s > len(%(seq)s)) '
        'and (%(lo)s <= 0 or %(seq)s[%(lo)s - 1] < %(probe)s or %(seq)s[%(lo)s] == %(probe)s)'
        % dict(lo=lo, hi=hi, seq=seq, probe=probe)))
    w = Universe(int_atoms=lambda a_: True).implies(pc, pre)
    ctx.check('R-SUFFIX/search', p, 'search precondition', w is None,
              'the position search runs under `%s`, which does not establish its preconditions (a non-empty window inside the '
              'list, every token before the window smaller than the probe unless the probe sits at the window start, some token '
              'not smaller than the probe): the split position it returns is then wrong%s'
              % (show(pc)[:140], (' - e.g. when ' + show_asg(w)[:100]) if w else ''), c,
              sample='window valid, tokens before it smaller, not all-smaller')
    if callee.name == '_binary_search' or 'search' in callee.name:
        ref = REF_BSEARCH.replace('self._binary_search', ('self.' if callee.cls is not None else '') + callee.name)
        if callee.cls is None:
            ref = ref.replace('def ref(self, ', 'def ref(')
        dtmod.compare_tables(ctx, 'R-SUFFIX/search', callee, ref, mode='conds', key='recursion', int_atoms=lambda a_: True)


def _check_worker(ctx, repo, path):
    """filter_tables' worker: a pair of present values is emitted exactly when it is not the admitted empty-empty case,
    both prefix lengths are positive and _filter_suffix does not drop it - the same decision filter_pair takes"""
    f = repo.fn(path, '_filter_tables_split')
    view = view_of(f)
    sinks = [n for n in walk_own(f.node) if isinstance(n, ast.Expr) and isinstance(n.value, ast.Call)
             and call_name(n.value) == 'append' and isinstance(n.value.func.value, ast.Name)
             and any(isinstance(x, ast.Call) and U(x.func).endswith('DataFrame') and x.args and U(x.args[0]) == n.value.func.value.id
                     for x in ast.walk(f.node))]
    sinks.sort(key=lambda n: (n.lineno, n.col_offset))
    if len(sinks) != 2:
        raise AnalysisError('%s: expected two row appends (empty-empty pairs, filtered pairs), found %d' % (f.where, len(sinks)))
    pls = []
    for n in walk_own(f.node):
        if isinstance(n, ast.Assign) and isinstance(n.targets[0], ast.Name) and isinstance(n.value, ast.Call):
            vx = view.expand(n.value, n)
            if isinstance(vx, ast.Call) and call_name(vx) == 'get_prefix_length':
                pls.append(n.targets[0].id)
    fcalls = [c for c in repo.calls_in(f) if call_name(c) == '_filter_suffix']
    if len(pls) != 2 or len(fcalls) != 1:
        raise AnalysisError('%s: prefix lengths / _filter_suffix call not recognisable' % f.where)
    conds = Conds(f.node, None)
    from ..guards import f_and, f_not
    # the innermost loop that contains both sinks, and the `if` that guards the empty-empty sink
    loops = [n for n in walk_own(f.node) if isinstance(n, ast.For) and all(any(x is sk for x in ast.walk(n)) for sk in sinks)]
    if not loops:
        raise AnalysisError('%s: the two row appends are not in one loop' % f.where)
    inner_loop = loops[-1]
    guard = None
    for n in ast.walk(inner_loop):
        if isinstance(n, ast.If) and any(x is sinks[0] for st_ in n.body for x in ast.walk(st_)) \
                and not any(x is sinks[1] for st_ in n.body for x in ast.walk(st_)):
            guard = n
            break
    if guard is None:
        raise AnalysisError('%s: the guard of the empty-empty append was not found' % f.where)
    c_body = conds.of(inner_loop.body[0])
    got = conds.of(sinks[1])
    ref = f_and(c_body, f_not(to_formula(guard.test)), f_not(to_formula(parse_expr('%s <= 0 or %s <= 0' % tuple(pls)))),
                f_not(('lit', fcalls[0], True)))
    w = Universe(int_atoms=lambda a: True).equivalent(got, ref)
    ctx.check('R-SUFFIX/worker', f, 'emission condition', w is None,
              'the worker emits a pair under `%s`; it must be exactly: not the admitted empty-empty case, both prefix lengths '
              'positive, and _filter_suffix(..) false%s' % (show(got)[:160], (' (differs when ' + show_asg(w)[:100] + ')') if w else ''),
              sinks[1], sample='emit iff not empty-case and prefixes > 0 and not _filter_suffix(..)')


def _inner(c, other, strip_common=False):
    """the part of condition c that is not shared with `other` (the literals of the enclosing loops / progress flags
    are common to both sinks)"""
    from ..guards import literals, f_and
    mine = [(U(e), pol, e) for _, e, pol in literals(c)]
    theirs = set((U(e), pol) for _, e, pol in literals(other))
    if c[0] not in ('and', 'lit'):
        return c
    keep = [('lit', e, pol) for t, pol, e in mine if (t, pol) not in theirs]
    return f_and(*keep) if keep else c


def _check_lower_bounds(ctx, repo, g, gv, pcalls, windowed, hmax):
    """Every value the estimator returns is a sum of valid lower bounds, and no recursive call gets a smaller budget
    than its share:
      H(l, r) >= H(l_l, r_l) + H(l_r, r_r) + diff,   H(x, y) >= | |x| - |y| |,   H(x, y) >= est(x, y)
    so a returned value v is fine when (A_L or E_L) + (A_R or E_R) + diff - v is a sum of non-negative terms, and a
    budget b handed to est(l_l, r_l, ..) / est(l_r, r_r, ..) is fine when b - (B - A_R - diff) resp.
    b - (B - E_L - diff) is. Anything else may still be correct; it is reported as not recognisable (exit 2) unless
    it is provably larger than such a bound."""
    from ..symx import nonneg
    parts = {}
    diff = flag = None
    probe_seq = None
    for c in pcalls:
        st = gv.stmt_of(c)
        t = st.targets[0].elts
        parts['l' if c is windowed else 'r'] = (t[0].id, t[1].id)
        if c is windowed:
            flag, diff = t[2].id, t[3].id
        else:
            probe_seq = (U(c.args[0]), c.args[1])
    (ll, lr), (rl, rr) = parts['l'], parts['r']
    # the probe token is an element of the sequence that is split exactly at its position
    tok = probe_seq[1]
    tx = gv.expand(tok, gv.stmt_of(pcalls[0]))
    ok_tok = isinstance(tx, ast.Subscript) and U(tx.value) == probe_seq[0]
    ctx.check('R-SUFFIX/recursion', g, 'probe token', ok_tok,
              'the probe token `%s` is not an element of `%s`, the suffix that is split at the probe position' % (U(tx)[:50], probe_seq[0]),
              pcalls[0], sample='%s[mid]' % probe_seq[0])
    rec = [c for c in repo.calls_in(g) if call_name(c) == g.name]
    names = {}
    for c in rec:
        b = repo.resolve_call(g, c)[2]
        la = U(b[g.params[1]])
        names[id(c)] = '__EL__' if la == ll else '__ER__' if la == lr else None

    class Sub(ast.NodeTransformer):
        def visit_Call(s_, n):
            if id(n) in names and names[id(n)]:
                return ast.Name(id=names[id(n)], ctx=ast.Load())
            return s_.generic_visit(n)
    keep = (ll, lr, rl, rr, diff)

    def nf(norm, e, st):
        import copy
        x = gv.expand(e, st, keep=keep)
        # calls are matched by identity in the *original* tree: substitute before expansion where possible
        return norm.visit(untag_names(x))
    # name the results of the recursive calls
    res_names = {}
    for c in rec:
        st = gv.stmt_of(c)
        if isinstance(st, ast.Assign) and isinstance(st.targets[0], ast.Name) and st.value is c and names[id(c)]:
            res_names[st.targets[0].id] = names[id(c)]
    keep = keep + tuple(res_names)
    AL = 'abs(len(%s) - len(%s))' % (ll, rl)
    AR = 'abs(len(%s) - len(%s))' % (lr, rr)
    EL = [k for k, v in res_names.items() if v == '__EL__']
    ER = [k for k, v in res_names.items() if v == '__ER__']
    combos = [(AL, AR)] + [(e, AR) for e in EL] + [(AL, e) for e in ER] + [(a, b) for a in EL for b in ER]
    conds = Conds(g.node, None)
    n_ret = 0
    for r in [x for x in walk_own(g.node) if isinstance(x, ast.Return) and x.value is not None]:
        if not gv.dominates(gv.stmt_of(windowed), r):
            continue                      # base cases, before the partitions
        try:
            norm = Norm()
            v = nf(norm, r.value, r)
            if (v - norm.visit(parse_expr(hmax))).as_const() is not None:
                continue                  # `budget + c`: decided by R-SUFFIX/estimate
            okv = False
            for a, b_ in combos:
                if nonneg(norm, norm.visit(parse_expr('%s + %s + %s' % (a, b_, diff))) - v, names=(diff,) + tuple(res_names)):
                    okv = True
            why = '`return %s` (= %s) is not bounded by a sum of valid lower bounds of the two parts plus the mismatch: the ' \
                  'estimate can exceed the true Hamming distance and qualifying pairs are dropped' % (U(r.value)[:50], U(untag_names(gv.expand(r.value, r, keep=keep)))[:100])
        except Unsupported as e:
            raise AnalysisError('%s: returned estimate `%s` not recognisable (%s)' % (g.where, U(r.value)[:60], e))
        n_ret += 1
        ctx.check('R-SUFFIX/bound', g, 'return %s' % U(r.value)[:40], okv, why, r, sample='a sum of lower bounds')
    ctx.floor('R-SUFFIX/bound', n_ret, 3, 'returned estimates after the partitions')
    # budgets of the recursive calls
    for c in rec:
        b = repo.resolve_call(g, c)[2]
        st = gv.stmt_of(c)
        which = names[id(c)]
        if which is None:
            continue
        try:
            norm = Norm()
            got = nf(norm, b[hmax], st)
            if which == '__EL__':
                want = norm.visit(parse_expr('%s - %s - %s' % (hmax, AR, diff)))
                okb = nonneg(norm, got - want, names=(diff,))
            else:
                okb = any(nonneg(norm, got - norm.visit(parse_expr('%s - %s - %s' % (hmax, e, diff))), names=(diff,) + tuple(res_names))
                          for e in (EL or [AL]))
        except Unsupported as e:
            raise AnalysisError('%s: recursive budget `%s` not recognisable (%s)' % (g.where, U(b[hmax])[:60], e))
        ctx.check('R-SUFFIX/bound', g, 'budget of the %s call' % ('left' if which == '__EL__' else 'right'), okb,
                  'the %s recursive call gets the budget `%s`, which can be smaller than what is left of the caller\'s budget: its '
                  'window becomes too narrow and it rejects pairs that are within the budget'
                  % ('left' if which == '__EL__' else 'right', U(b[hmax])[:80]), c, sample='budget minus the other side\'s bound minus mismatch')
    # the one-token base case: 0/1 is a valid bound when the value 1 implies the two tokens differ
    for r in [x for x in walk_own(g.node) if isinstance(x, ast.Return) and x.value is not None]:
        if gv.dominates(gv.stmt_of(windowed), r):
            continue
        v = r.value
        while isinstance(v, ast.Call) and isinstance(v.func, ast.Name) and v.func.id in ('int', 'bool') and len(v.args) == 1:
            v = v.args[0]
        if isinstance(v, (ast.Compare, ast.UnaryOp, ast.BoolOp)):
            subs = [x for x in ast.walk(v) if isinstance(x, ast.Subscript)]
            if len(subs) == 2:
                ref = ast.Compare(left=subs[0], ops=[ast.NotEq()], comparators=[subs[1]])
                w = Universe().implies(to_formula(v), to_formula(ref))
                ctx.check('R-SUFFIX/bound', g, 'one-token base case', w is None,
                          '`return %s`: the value 1 must mean that the two tokens differ' % U(r.value)[:60], r,
                          sample='1 iff the tokens differ')
                c = conds.of(r)
                for sub in subs:
                    cnt = g.params[3] if U(sub.value) == g.params[1] else g.params[4] if U(sub.value) == g.params[2] else None
                    if cnt:
                        w2 = Universe(int_atoms=lambda a: True).implies(c, to_formula(parse_expr('%s != 0' % cnt)))
                        ctx.check('R-SUFFIX/probe', g, 'read %s' % U(sub)[:30], w2 is None,
                                  '`%s` is read although that suffix may be empty (path condition `%s`)' % (U(sub), show(c)[:80]), r)


def _check_mid_range(ctx, g, gv, mid_name, r_n, at_call):
    """the probe position indexes the right suffix: floor(r_n * q) with 0 < q < 1 stays below r_n (r_n >= 1 there).
    Other spellings are left undecided here (R-SUFFIX/probe covers the emptiness part)."""
    st = gv.stmt_of(at_call)
    x = untag_names(gv.expand(parse_expr(mid_name), st))
    try:
        norm = Norm()
        v = norm.visit(x)
        sa = v.single_atom()
        if sa is None or sa[1] != 1 or sa[2] != 0:
            return
        info = norm.info(sa[0])
        if not info or info[0] not in ('floor', 'floordiv'):
            return
        q = (info[1][0] / norm.visit(parse_expr(r_n))).as_const()
    except Unsupported:
        return
    if q is None:
        return
    ctx.check('R-SUFFIX/probe', g, 'probe position', 0 < q < 1,
              'the probe position `%s` = floor(%s * %s) is not below the size of the right suffix: the read of the probe token '
              'is out of range' % (U(x)[:60], q, r_n), at_call, sample='floor(%s * %s)' % (q, r_n))
