"""R-SUFFIX: necessary conditions for the suffix filter to be safe (part of C04's algorithmic clause).

The suffix filter drops a pair when a lower bound on the Hamming distance of the two *suffixes*
exceeds a budget. Two structural facts must hold for that to be safe; both follow from set algebra,
not from the recursion (which stays undecided):

budget  the suffixes are cut at two different prefix lengths, so a token of one suffix may sit in the
        other's prefix: |x delta y| >= |xs delta ys| - |xp| - |yp|. The budget handed to the estimator
        must therefore be at least (l + r - 2*required overlap) + l_prefix + r_prefix.
window  the admissible positions of the probe token in the other suffix are
        [mid - o - D*o_l, mid + o + D*o_r] (o = (budget - D)/2, D = |size difference|). The caller must
        pass that window unclamped at the top (clamping it to the list discards the information that
        positions beyond the end were admissible), and `_partition` may reject only when the token
        provably falls outside it: `tokens[left-1] >= probe` (left > 0) or `tokens[right] < probe` with
        right inside the list (or an empty / out-of-list window). In particular `tokens[left] > probe`
        is not a reason to reject: position `left` itself is admissible."""
import ast

from .. import AnalysisError
from ..flow import view_of, untag as untag_names
from ..guards import Conds, Universe, to_formula, f_or, show, show_asg, FALSE
from ..model import U
from ..symx import Norm, Unsupported
from .common import FILTERS, call_name, walk_own, expander, parse_expr
from . import dt as dtmod

REF_PARTITION = '''
def ref(self, tokens, probe_token, left, right):
    if right < left or left > len(tokens):
        return FAIL
    if left > 0 and tokens[left - 1] >= probe_token:
        return FAIL
    if right < len(tokens) and tokens[right] < probe_token:
        return FAIL
    return ANY
'''


def _is_fail(v):
    return isinstance(v, ast.Tuple) and len(v.elts) == 4 and isinstance(v.elts[2], ast.Constant) and v.elts[2].value == 0


def run(ctx):
    ctx.group('R-SUFFIX')
    repo = ctx.repo
    path = FILTERS['SuffixFilter'][0]
    # ---------------------------------------------------------------- budget
    f = repo.fn(path, 'SuffixFilter._filter_suffix')
    view = view_of(f)
    calls = [c for c in repo.calls_in(f) if call_name(c) == '_est_hamming_dist_lower_bound']
    if len(calls) != 1:
        raise AnalysisError('%s: estimator call not found' % f.where)
    c = calls[0]
    r = repo.resolve_call(f, c)
    if r is None:
        raise AnalysisError('%s: estimator not resolvable' % f.where)
    b = r[2]
    st = view.stmt_of(c)
    budget = view.expand(b['hamming_dist_max'], st)
    lp, rp, ln, rn = f.params[3], f.params[4], f.params[5], f.params[6]
    ok = False
    why = ''
    try:
        norm = Norm()
        got = norm.visit(budget)
        t = None
        for n in ast.walk(budget):
            if isinstance(n, ast.Call) and call_name(n) == 'get_overlap_threshold':
                t = U(n)
        if t is None:
            raise Unsupported('required overlap not part of the budget')
        ref = norm.visit(parse_expr('%s + %s - 2 * %s + %s + %s' % (ln, rn, t, lp, rp)))
        d = got.diff_const(ref)
        ok = d is not None and d >= 0
        why = 'the Hamming budget is `%s`; it must be at least l + r - 2*required_overlap + l_prefix + r_prefix because ' \
              'the suffixes are cut at different prefix lengths (difference to that bound: %s)' % (U(budget)[:120], d if d is not None else 'not constant')
    except Unsupported as e:
        why = 'budget `%s` not recognisable: %s' % (U(budget)[:80], e)
    ctx.check('R-SUFFIX/budget', f, 'hamming budget', ok, why, c, sample=U(budget)[:140])
    _check_decision(ctx, repo, f, view, c, st, b)
    _check_sizes(ctx, repo, f, view, c, st, b, (lp, rp, ln, rn))
    _check_call_sites(ctx, repo, path)
    # ---------------------------------------------------------------- window passed by the estimator
    g = repo.fn(path, 'SuffixFilter._est_hamming_dist_lower_bound')
    gv = view_of(g)
    pcalls = [c2 for c2 in repo.calls_in(g) if call_name(c2) == '_partition']
    if len(pcalls) != 2:
        raise AnalysisError('%s: expected two _partition calls' % g.where)
    other = None
    for c2 in pcalls:
        a = c2.args
        if len(a) == 4 and U(a[2]) != U(a[3]):
            other = c2
    if other is None:
        raise AnalysisError('%s: windowed _partition call not found' % g.where)
    st2 = gv.stmt_of(other)
    lo = other.args[2]
    hi = other.args[3]
    # o_l / o_r are selected by the size comparison: analyse both cases by substitution
    l_n, r_n, hmax = g.params[3], g.params[4], g.params[5]
    mids = [n for n in walk_own(g.node) if isinstance(n, ast.Assign) and isinstance(n.targets[0], ast.Name) and U(n.targets[0]) == U(other.args[1]).replace('_token', '')]
    mid_name = None
    for n in walk_own(g.node):
        if isinstance(n, ast.Assign) and isinstance(n.value, ast.Subscript) and U(n.targets[0]) == U(other.args[1]):
            mid_name = U(n.value.slice)
    if mid_name is None:
        raise AnalysisError('%s: probe position not recognisable' % g.where)

    def strip_int(e):
        while isinstance(e, ast.Call) and isinstance(e.func, ast.Name) and e.func.id in ('int', 'floor') and len(e.args) == 1:
            e = e.args[0]
        return e
    lo_core = lo
    clamp0 = False
    if isinstance(lo_core, ast.Call) and call_name(lo_core) == 'max' and len(lo_core.args) == 2:
        zs = [x for x in lo_core.args if isinstance(x, ast.Constant) and x.value == 0]
        if zs:
            clamp0 = True
            lo_core = [x for x in lo_core.args if x not in zs][0]
    lo_core, hi_core = strip_int(lo_core), strip_int(hi)
    hi_clamped = isinstance(hi, ast.Call) and call_name(hi) == 'min'
    okw = not hi_clamped
    whyw = 'the upper end of the admissible window is clamped (`%s`): positions beyond the end of the list were ' \
           'admissible, and _partition can no longer tell' % U(hi)[:80]
    if okw:
        okw, whyw = _window_by_case(g, gv, other, lo_core, hi_core, mid_name, l_n, r_n, hmax)
        if not okw:
            whyw = 'the window passed to _partition is [%s, %s]; %s' % (U(lo)[:60], U(hi)[:60], whyw)
    ctx.check('R-SUFFIX/window', g, 'window passed to _partition', okw, whyw, other,
              sample='[%s, %s]' % (U(lo)[:50], U(hi)[:50]))
    # ---------------------------------------------------------------- rejections in _partition
    p = repo.fn(path, 'SuffixFilter._partition')
    ref = dtmod.ref_func(REF_PARTITION, p)
    impl_rows = dtmod._table(p, 'conds')
    ref_rows = dtmod._table(ref, 'conds')
    fi = f_or(*[r_[0] for r_ in impl_rows if r_[1] == 'return' and _is_fail(r_[2])]) if impl_rows else FALSE
    fr = f_or(*[r_[0] for r_ in ref_rows if r_[1] == 'return' and isinstance(r_[2], ast.Name) and r_[2].id == 'FAIL'])
    uni = Universe(int_atoms=lambda a: True)
    w = uni.implies(fi, fr)
    ctx.check('R-SUFFIX/reject', p, 'rejecting conditions', w is None,
              '_partition rejects although the probe token may still lie inside the admissible window, e.g. when %s '
              '(a rejection needs tokens[left-1] >= probe with left > 0, or tokens[right] < probe with right inside the '
              'list, or an empty window)' % (show_asg(w) if w else ''), p.node,
              sample='rejections imply the reference rejection conditions')
    _check_partition_slices(ctx, p)
    _check_probe_exists(ctx, g, gv, l_n, r_n)
    _check_recursion(ctx, repo, g, gv, pcalls, other)
    ctx.assume("the recursion of _est_hamming_dist_lower_bound (a valid lower bound of the suffixes' Hamming distance) "
               "is algorithmic and not decided")


def _selection_ok(g, gv, pcall, l_n, r_n, name_l='o_l', name_r='o_r'):
    """(o_l, o_r) must be (1, 0) when the left suffix is the shorter one and (0, 1) otherwise - whatever idiom
    computes them (if/else, conditional expression, complement). Decided per path to the _partition call."""
    import copy
    from ..paths import enumerate_paths, symexec
    from ..guards import to_formula as tf
    cfg = gv.cfg
    node = cfg.node_of(gv.stmt_of(pcall))
    small = tf(parse_expr('%s < %s' % (l_n, r_n)))
    seen_cases = set()
    for p in enumerate_paths(cfg, cfg.entry.id, {node.id}, stop={node.id}, limit=4000):
        ps = symexec(p)
        for case in (True, False):
            # is this case compatible with the path? (every size comparison on the path must agree)
            compatible = True
            for e, pol, _ in ps.conds:
                if isinstance(e, ast.Compare) and l_n in U(e) and r_n in U(e) and not any(isinstance(x, ast.Constant) for x in ast.walk(e)):
                    uni = Universe(int_atoms=lambda a: True)
                    holds_when_small = uni.implies(small, tf(e, pol)) is None
                    holds_when_not = Universe(int_atoms=lambda a: True).implies(('lit', small[1], False) if small[0] == 'lit' else small, tf(e, pol)) is None
                    if case and not holds_when_small:
                        compatible = False
                    if not case and not holds_when_not:
                        compatible = False
            if not compatible:
                continue
            vals = []
            for nm in (name_l, name_r):
                e = ps.env.get(nm)
                if e is None:
                    return False, '%s is not assigned on a path to the _partition call' % nm
                v = _eval_case(e, small, case)
                if v is None:
                    return False, '%s = `%s` cannot be evaluated for the case %s %s %s' % (nm, U(e)[:60], l_n, '<' if case else '>=', r_n)
                vals.append(v)
            seen_cases.add(case)
            want = (1, 0) if case else (0, 1)
            if tuple(vals) != want:
                return False, '(o_l, o_r) = %s when %s %s %s; it must be %s: the size difference widens the window on the ' \
                              'shorter side only' % (tuple(vals), l_n, '<' if case else '>=', r_n, want)
    if seen_cases != {True, False}:
        return False, 'the selection of o_l/o_r does not cover both size orders'
    return True, ''


def _eval_case(e, small, case):
    """numeric value of e when the size comparison `small` is `case`; conditional expressions on that
    comparison are resolved, everything else must fold to a constant"""
    import copy

    class T(ast.NodeTransformer):
        def visit_IfExp(s, n):
            n = s.generic_visit(n)
            from ..guards import to_formula as tf
            t = tf(n.test)
            same = Universe(int_atoms=lambda a: True).equivalent(t, small) is None
            from ..guards import f_not
            opp = Universe(int_atoms=lambda a: True).equivalent(t, f_not(small)) is None
            if same:
                return n.body if case else n.orelse
            if opp:
                return n.orelse if case else n.body
            return n
    x = T().visit(copy.deepcopy(e))
    try:
        c = Norm().visit(x).as_const()
    except Unsupported:
        return None
    return int(c) if c is not None and c.denominator == 1 else None


def _strip_entry(c, l_n, r_n):
    """keep only the literals comparing the two suffix sizes (the enclosing early-return conditions are
    irrelevant for which of o_l/o_r is chosen)"""
    from ..guards import literals, f_and
    lits = [('lit', e, pol) for _, e, pol in literals(c) if isinstance(e, ast.Compare) and l_n in U(e) and r_n in U(e)
            and not any(isinstance(x, ast.Constant) for x in ast.walk(e))]
    seen = []
    for x in lits:
        if U(x[1]) not in [U(y[1]) for y in seen]:
            seen.append(x)
    return f_and(*seen) if seen else c


def _check_decision(ctx, repo, f, view, call, st, b):
    """the pair is dropped (True) only when the estimated lower bound exceeds the budget"""
    ex = expander(view)
    conds = Conds(f.node, ex)
    est = ex(call, st)
    bud = ex(b['hamming_dist_max'], st)
    drop, odd = [], []
    after = False
    for n in conds.order:
        if n is st:
            after = True
        if isinstance(n, ast.Return) and after and n is not st:
            v = ex(n.value, n) if n.value is not None else ast.Constant(None)
            if isinstance(v, ast.Constant) and v.value is True:
                drop.append(conds.of(n))
            elif isinstance(v, ast.Constant) and v.value is False:
                pass
            else:
                # `return est > budget` and the like: dropped when the returned expression is true
                from ..guards import f_and
                drop.append(f_and(conds.of(n), to_formula(v)))
    if not drop:
        ctx.check('R-SUFFIX/decision', f, 'drop decision', False,
                  'no return after the estimator call drops a pair: the suffix filter decides nothing', call)
        return
    ref = to_formula(ast.Compare(left=est, ops=[ast.Gt()], comparators=[bud]))
    w = Universe(int_atoms=lambda a: True).implies(f_or(*drop), ref)
    ctx.check('R-SUFFIX/decision', f, 'drop decision', w is None,
              'after the estimator call a pair is dropped under `%s`; it may be dropped only when the lower bound '
              'exceeds the budget (estimate > budget)%s' % (show(f_or(*drop))[:160], (' - e.g. when ' + show_asg(w)[:120]) if w else ''),
              call, sample='dropped only if estimate > budget (%d dropping returns)' % len(drop))


def _check_sizes(ctx, repo, f, view, call, st, b, names):
    lp, rp, ln, rn = names
    ok = True
    why = ''
    try:
        norm = Norm()
        for side, size, n_, p_, seq in (('left', 'l_suffix_num_tokens', ln, lp, 'l_suffix'), ('right', 'r_suffix_num_tokens', rn, rp, 'r_suffix')):
            got = norm.visit(view.expand(b[size], st))
            want = norm.visit(parse_expr('%s - %s' % (n_, p_)))
            if got != want:
                ok = False
                why = 'the %s suffix size handed to the estimator is `%s`, not %s - %s' % (side, U(b[size])[:60], n_, p_)
            sx = view.expand(b[seq], st)
            pname = f.params[1] if side == 'left' else f.params[2]
            if U(sx) != pname:
                ok = False
                why = 'the %s token list handed to the estimator is `%s`, not the %s suffix `%s`' % (side, U(sx)[:60], side, pname)
    except Unsupported as e:
        ok = False
        why = 'suffix sizes not recognisable: %s' % e
    ctx.check('R-SUFFIX/sizes', f, 'suffix sizes', ok, why, call, sample='(l_suffix, r_suffix, l - l_prefix, r - r_prefix)')


def _check_call_sites(ctx, repo, path):
    """every caller cuts each suffix at the prefix length it also passes, computed from the token count it passes"""
    n = 0
    for g in repo.all_funcs():
        if g.module.relpath != path:
            continue
        gv = None
        for c in repo.calls_in(g):
            if call_name(c) != '_filter_suffix':
                continue
            r = repo.resolve_call(g, c)
            if r is None:
                raise AnalysisError('%s: _filter_suffix call not resolvable' % g.where)
            gv = gv or view_of(g)
            st = gv.stmt_of(c)
            b = r[2]
            n += 1
            for side, seq, pre, cnt in (('left', 'l_suffix', 'l_prefix_num_tokens', 'l_num_tokens'),
                                        ('right', 'r_suffix', 'r_prefix_num_tokens', 'r_num_tokens')):
                sx, px, nx = gv.expand(b[seq], st), gv.expand(b[pre], st), gv.expand(b[cnt], st)
                ok = isinstance(sx, ast.Subscript) and isinstance(sx.slice, ast.Slice) and sx.slice.upper is None \
                    and sx.slice.step is None and sx.slice.lower is not None and U(sx.slice.lower) == U(px)
                why = 'the %s suffix `%s` is not the token list cut at the prefix length `%s` that is passed along' % (side, U(sx)[:70], U(px)[:50])
                if ok:
                    ok = isinstance(px, ast.Call) and call_name(px) == 'get_prefix_length' and px.args and U(px.args[0]) == U(nx)
                    why = 'the %s prefix length `%s` is not computed from the token count `%s` that is passed along' % (side, U(px)[:70], U(nx)[:40])
                if ok:
                    base = sx.value
                    inner = base.args[0] if isinstance(base, ast.Call) and call_name(base) == 'order_using_token_ordering' and base.args else None
                    ok = isinstance(nx, ast.Call) and call_name(nx) == 'len' and len(nx.args) == 1 \
                        and (U(nx.args[0]) == U(base) or (inner is not None and U(nx.args[0]) == U(inner)))
                    why = 'the %s token count `%s` is not the length of the token list `%s` whose suffix is passed' % (side, U(nx)[:50], U(base)[:60])
                ctx.check('R-SUFFIX/call', g, '%s suffix' % side, ok, why, c, sample='%s[%s:]' % (side, U(b[pre])))
    ctx.floor('R-SUFFIX/call', n, 2, '_filter_suffix call sites')


def _slice_bounds(e, seq):
    """e == seq[a:b] or [] -> (a, b) as expressions (None = open end); else None"""
    if isinstance(e, ast.List) and not e.elts:
        return 'empty'
    if isinstance(e, ast.Subscript) and U(e.value) == seq and isinstance(e.slice, ast.Slice) and e.slice.step is None:
        return e.slice.lower, e.slice.upper
    return None


def _check_partition_slices(ctx, p):
    """a successful partition returns (tokens[0:pos], tokens[pos+1-d:], 1, d): everything before the split position on
    the left, everything from it on the right, the probe token itself skipped exactly when it was found (d = 0)"""
    from ..paths import enumerate_paths, symexec, _sub
    view = view_of(p)
    cfg = view.cfg
    seq, probe = p.params[1], p.params[2]
    ends = [n.id for n in cfg.nodes if n.kind == 'return']
    n_ok = 0
    bad = None
    for path in enumerate_paths(cfg, cfg.entry.id, set(ends), stop=set(ends), limit=4000):
        last = path[-1].node
        ps = symexec(path)
        v = _sub(last.ast.value, ps.env) if last.ast.value is not None else None
        if not (isinstance(v, ast.Tuple) and len(v.elts) == 4):
            bad = bad or (last.ast, 'a return of _partition is not a 4-tuple')
            continue
        L, R, flag, d = v.elts
        if isinstance(flag, ast.Constant) and flag.value == 0:
            continue
        n_ok += 1
        if not (isinstance(d, ast.Constant) and d.value in (0, 1)):
            bad = bad or (last.ast, 'the mismatch count returned is `%s`, not 0 or 1' % U(d)[:40])
            continue
        lb, rb = _slice_bounds(L, seq), _slice_bounds(R, seq)
        if lb is None or lb == 'empty' or rb is None:
            bad = bad or (last.ast, 'the parts returned are `%s` / `%s`, not slices of the token list' % (U(L)[:40], U(R)[:40]))
            continue
        try:
            norm = Norm()
            n_len = norm.visit(parse_expr('len(%s)' % seq))
            a = norm.visit(lb[0]) if lb[0] is not None else norm.visit(ast.Constant(0))
            b_ = norm.visit(lb[1]) if lb[1] is not None else n_len
            if rb == 'empty':
                c_, e_ = n_len, n_len
            else:
                c_ = norm.visit(rb[0]) if rb[0] is not None else norm.visit(ast.Constant(0))
                e_ = norm.visit(rb[1]) if rb[1] is not None else n_len
            okp = a.as_const() == 0 and e_ == n_len and c_.diff_const(b_) == 1 - d.value
        except Unsupported:
            okp = False
        if not okp:
            bad = bad or (last.ast, 'a successful partition returns `%s` and `%s` with mismatch %s: tokens are lost or '
                                    'duplicated between the parts (expected tokens[0:pos], tokens[pos+1-d:])' % (U(L)[:50], U(R)[:50], d.value))
            continue
        if d.value == 0:
            # the probe token is skipped only where it was found
            found = any(pol and isinstance(e, ast.Compare) and len(e.ops) == 1 and isinstance(e.ops[0], ast.Eq)
                        and probe in (U(e.left), U(e.comparators[0])) and ('%s[' % seq) in U(e) for e, pol, _ in ps.conds)
            if not found:
                bad = bad or (last.ast, 'a token is skipped (mismatch 0) on a path that has not found the probe token at the split position')
    ctx.check('R-SUFFIX/partition', p, 'returned parts', bad is None and n_ok >= 2, bad[1] if bad else 'fewer than two successful returns',
              bad[0] if bad else p.node, sample='%d successful return paths: (tokens[0:pos], tokens[pos+1-d:], 1, d)' % n_ok)


def _check_probe_exists(ctx, g, gv, l_n, r_n):
    """the probe token is read from the right suffix: every path to that read has established that it is non-empty"""
    reads = [n for n in walk_own(g.node) if isinstance(n, ast.Subscript) and U(n.value) == g.params[2]
             and not isinstance(n.slice, ast.Slice)]
    conds = Conds(g.node, None)
    nn = 0
    for rd in reads:
        st = gv.stmt_of(rd)
        c = conds.of(st)
        nn += 1
        w = Universe(int_atoms=lambda a: True).implies(c, to_formula(parse_expr('%s != 0' % r_n)))
        ctx.check('R-SUFFIX/probe', g, 'read %s' % U(rd)[:30], w is None,
                  '`%s` is read although the right suffix may be empty (path condition `%s`): the early return must cover '
                  'an empty right suffix' % (U(rd)[:40], show(c)[:100]), rd, sample='guarded by %s != 0' % r_n)
    ctx.floor('R-SUFFIX/probe', nn, 1, 'reads of the right suffix')


def _check_recursion(ctx, repo, g, gv, pcalls, windowed):
    """the estimator recurses on (left part of l, left part of r) and (right part of l, right part of r), each with the
    sizes of exactly those parts"""
    parts = {}
    for c in pcalls:
        st = gv.stmt_of(c)
        if not (isinstance(st, ast.Assign) and isinstance(st.targets[0], ast.Tuple) and len(st.targets[0].elts) == 4
                and all(isinstance(x, ast.Name) for x in st.targets[0].elts[:2])):
            raise AnalysisError('%s: _partition result is not unpacked into (left, right, flag, diff)' % g.where)
        side = 'l' if c is windowed else 'r'
        src = U(c.args[0]) if c.args else '?'
        want_src = g.params[1] if side == 'l' else g.params[2]
        ctx.check('R-SUFFIX/recursion', g, 'partition of %s' % want_src, src == want_src,
                  'the %s _partition call splits `%s`, expected `%s`' % ('windowed' if side == 'l' else 'probe-side', src, want_src), c,
                  sample='%s -> (%s, %s)' % (src, st.targets[0].elts[0].id, st.targets[0].elts[1].id))
        parts[side] = (st.targets[0].elts[0].id, st.targets[0].elts[1].id)
    if set(parts) != {'l', 'r'}:
        raise AnalysisError('%s: the two partitions are not recognisable' % g.where)
    rec = [c for c in repo.calls_in(g) if call_name(c) == g.name]
    seen = set()
    for c in rec:
        r = repo.resolve_call(g, c)
        if r is None:
            raise AnalysisError('%s: recursive call not resolvable' % g.where)
        b = r[2]
        st = gv.stmt_of(c)
        la, ra = U(b[g.params[1]]), U(b[g.params[2]])
        which = None
        for i, nm in ((0, 'left'), (1, 'right')):
            if la == parts['l'][i] and ra == parts['r'][i]:
                which = nm
        ok = which is not None
        why = 'the recursion compares `%s` with `%s`; it must pair the left parts (%s, %s) or the right parts (%s, %s)' % (
            la, ra, parts['l'][0], parts['r'][0], parts['l'][1], parts['r'][1])
        if ok:
            seen.add(which)
            for prm, arg in ((g.params[3], la), (g.params[4], ra)):
                sx = gv.expand(b[prm], st)
                if U(sx) != U(gv.expand(parse_expr('len(%s)' % arg), st)):
                    ok = False
                    why = 'the size passed for `%s` is `%s`, not len(%s)' % (arg, U(sx)[:40], arg)
        ctx.check('R-SUFFIX/recursion', g, 'recursive call %s' % (which or '?'), ok, why, c, sample='(%s, %s)' % (la, ra))
    ctx.check('R-SUFFIX/recursion', g, 'both parts', seen == {'left', 'right'} or not rec,
              'the recursion covers only the %s parts' % sorted(seen), g.node, nontrivial=False)
    ctx.floor('R-SUFFIX/recursion', len(rec), 2, 'recursive estimator calls')


def _resolve_case(e, small, case):
    """conditional expressions on the size comparison resolved for the given case"""
    import copy
    from ..guards import to_formula as tf, f_not

    class T(ast.NodeTransformer):
        def visit_IfExp(s, n):
            n = s.generic_visit(n)
            t = tf(n.test)
            if Universe(int_atoms=lambda a: True).equivalent(t, small) is None:
                return n.body if case else n.orelse
            if Universe(int_atoms=lambda a: True).equivalent(t, f_not(small)) is None:
                return n.orelse if case else n.body
            return n
    return T().visit(copy.deepcopy(e))


def _window_by_case(g, gv, pcall, lo_core, hi_core, mid_name, l_n, r_n, hmax):
    """On every path to the windowed _partition call and for both size orders compatible with that path, the bounds -
    with every local replaced by its value on the path and the size comparison resolved - contain
    [mid - o - D*o_l, mid + o + D*o_r], o = (budget - D)/2, D = |l - r|, (o_l, o_r) = (1, 0) if l < r else (0, 1).
    No local name is assumed: whatever computes o, D, o_l, o_r is followed."""
    from ..paths import enumerate_paths, symexec, _sub
    from ..guards import to_formula as tf
    cfg = gv.cfg
    node = cfg.node_of(gv.stmt_of(pcall))
    small = tf(parse_expr('%s < %s' % (l_n, r_n)))
    D = 'abs(%s - %s)' % (l_n, r_n)
    seen = set()
    for p in enumerate_paths(cfg, cfg.entry.id, {node.id}, stop={node.id}, limit=4000):
        ps = symexec(p)
        for case in (True, False):
            compatible = True
            for e, pol, _ in ps.conds:
                if isinstance(e, ast.Compare) and l_n in U(e) and r_n in U(e) and not any(isinstance(x, ast.Constant) for x in ast.walk(e)):
                    when_small = Universe(int_atoms=lambda a: True).implies(small, tf(e, pol)) is None
                    when_not = Universe(int_atoms=lambda a: True).implies(('lit', small[1], False) if small[0] == 'lit' else small, tf(e, pol)) is None
                    if (case and not when_small) or (not case and not when_not):
                        compatible = False
            if not compatible:
                continue
            seen.add(case)
            try:
                norm = Norm()
                xl = _resolve_case(untag_names(_sub(lo_core, ps.env)), small, case)
                xh = _resolve_case(untag_names(_sub(hi_core, ps.env)), small, case)
                mid_x = _resolve_case(untag_names(_sub(parse_expr(mid_name), ps.env)), small, case)
                # |l - r| may be spelled either way round
                dd = norm.visit(parse_expr(D))
                alt = parse_expr('abs(%s - %s)' % (r_n, l_n))
                norm.env = dict(norm.env)
                want_lo = norm.visit(parse_expr('(%s) - (%s - %s) / 2 - %s * %d' % (U(mid_x), hmax, D, D, 1 if case else 0)))
                want_hi = norm.visit(parse_expr('(%s) + (%s - %s) / 2 + %s * %d' % (U(mid_x), hmax, D, D, 0 if case else 1)))
                got_lo = norm.visit(_swap_abs(xl, alt, parse_expr(D)))
                got_hi = norm.visit(_swap_abs(xh, alt, parse_expr(D)))
            except Unsupported as e:
                return False, 'window bounds not recognisable: %s' % e
            dl, dh = got_lo.diff_const(want_lo), got_hi.diff_const(want_hi)
            if not (dl is not None and dl <= 0 and dh is not None and dh >= 0):
                return False, 'when %s %s %s it is [%s, %s], which does not contain [mid - o - D*%d, mid + o + D*%d] ' \
                              '(o = (budget - D)/2, D = |size difference|): the size difference widens the window on the ' \
                              'shorter side' % (l_n, '<' if case else '>=', r_n, U(xl)[:70], U(xh)[:70], 1 if case else 0, 0 if case else 1)
    if seen != {True, False}:
        return False, 'the paths to the _partition call do not cover both size orders'
    return True, ''


def _swap_abs(e, frm, to):
    """abs(r - l) -> abs(l - r) (same value; the normal form keeps function atoms syntactically)"""
    import copy
    ft = U(frm)

    class T(ast.NodeTransformer):
        def visit_Call(s, n):
            n = s.generic_visit(n)
            if U(n) == ft:
                return copy.deepcopy(to)
            return n
    return T().visit(copy.deepcopy(e))
