"""Path conditions of statements (structured control dependence) and comparison of
conditions / decision tables *as Boolean functions* over a finite atom universe.

A formula is TRUE, FALSE, ('lit', expr, polarity), ('and', [..]) or ('or', [..]).
Test expressions are decomposed (not/and/or/chained comparisons) into literals over atomic
tests. Atomic tests are classified by `Universe`:
  * numeric comparison  a op b  -> linear form Q op c (symx), one variable per Q, regions
    around the constants that occur (integers only when Q is known integral);
  * x == 'LIT', x != 'LIT', x in [...], x not in [...] -> one enumerated variable per x;
  * x is None / x is not None, truthiness, any other call -> Boolean variable keyed by the
    canonical text of the (expanded) expression.
Two formulas are equivalent iff they agree on every assignment (exhaustive; the variables are
treated as independent, which can only make two equivalent formulas look different, never the
reverse)."""
import ast
import itertools
from fractions import Fraction

from . import AnalysisError
from .model import U
from .symx import Norm, Rat, Poly, Unsupported

TRUE = ('true',)
FALSE = ('false',)


def f_and(*xs):
    out = []
    for x in xs:
        if x == FALSE:
            return FALSE
        if x == TRUE:
            continue
        if x[0] == 'and':
            out += x[1]
        else:
            out.append(x)
    if not out:
        return TRUE
    return out[0] if len(out) == 1 else ('and', out)


def f_or(*xs):
    out = []
    for x in xs:
        if x == TRUE:
            return TRUE
        if x == FALSE:
            continue
        if x[0] == 'or':
            out += x[1]
        else:
            out.append(x)
    if not out:
        return FALSE
    return out[0] if len(out) == 1 else ('or', out)


def f_not(x):
    if x == TRUE:
        return FALSE
    if x == FALSE:
        return TRUE
    if x[0] == 'lit':
        return ('lit', x[1], not x[2])
    if x[0] == 'and':
        return f_or(*[f_not(y) for y in x[1]])
    return f_and(*[f_not(y) for y in x[1]])


def to_formula(e, pol=True):
    """Test expression -> formula over atomic tests."""
    if isinstance(e, ast.UnaryOp) and isinstance(e.op, ast.Not):
        return to_formula(e.operand, not pol)
    if isinstance(e, ast.BoolOp):
        parts = [to_formula(v, True) for v in e.values]
        f = f_and(*parts) if isinstance(e.op, ast.And) else f_or(*parts)
        return f if pol else f_not(f)
    if isinstance(e, ast.Compare) and len(e.ops) > 1:
        parts = []
        left = e.left
        for op, c in zip(e.ops, e.comparators):
            parts.append(('lit', ast.Compare(left=left, ops=[op], comparators=[c]), True))
            left = c
        f = f_and(*parts)
        return f if pol else f_not(f)
    if isinstance(e, ast.Constant) and isinstance(e.value, bool):
        return TRUE if (e.value == pol) else FALSE
    if isinstance(e, ast.IfExp):
        c = to_formula(e.test, True)
        f = f_or(f_and(c, to_formula(e.body, True)), f_and(f_not(c), to_formula(e.orelse, True)))
        return f if pol else f_not(f)
    if isinstance(e, ast.Compare):
        ab = _first_abs(e)
        if ab is not None:
            # |x| compared with something: split on the sign of x (abs(x) == x if x >= 0 else -x)
            x = ab.args[0]
            sel = ast.IfExp(test=ast.Compare(left=x, ops=[ast.GtE()], comparators=[ast.Constant(0)]),
                            body=x, orelse=ast.UnaryOp(op=ast.USub(), operand=x))
            return to_formula(_replace_node(e, ab, sel), pol)
    inner = _first_ifexp(e)
    if inner is not None:
        # lift a conditional sub-expression:  P[a if c else b]  ==  (c and P[a]) or (not c and P[b])
        c = to_formula(inner.test, True)
        from .fold import fold
        fa = to_formula(fold(_replace_node(e, inner, inner.body)), True)
        fb = to_formula(fold(_replace_node(e, inner, inner.orelse)), True)
        f = f_or(f_and(c, fa), f_and(f_not(c), fb))
        return f if pol else f_not(f)
    return ('lit', e, pol)


def _first_abs(e):
    todo = [e]
    while todo:
        n = todo.pop(0)
        if isinstance(n, (ast.Lambda, ast.IfExp)):
            continue
        if isinstance(n, ast.Call) and isinstance(n.func, ast.Name) and n.func.id == 'abs' and len(n.args) == 1 and not n.keywords:
            return n
        todo.extend(ast.iter_child_nodes(n))
    return None


def _first_ifexp(e):
    todo = [e]
    while todo:
        n = todo.pop(0)
        if isinstance(n, ast.Lambda):
            continue
        if isinstance(n, ast.IfExp) and n is not e:
            return n
        todo.extend(ast.iter_child_nodes(n))
    return None


def _replace_node(root, target, repl):
    import copy

    def rec(n):
        if n is target:
            return repl
        if not isinstance(n, ast.AST):
            return n
        vals = {}
        changed = False
        for fld, old in ast.iter_fields(n):
            if isinstance(old, list):
                new = [rec(x) if isinstance(x, ast.AST) else x for x in old]
                changed = changed or any(a is not b for a, b in zip(new, old))
                vals[fld] = new
            elif isinstance(old, ast.AST):
                new = rec(old)
                changed = changed or new is not old
                vals[fld] = new
            else:
                vals[fld] = old
        return type(n)(**vals) if changed else n
    return rec(root)


def literals(f, out=None):
    out = [] if out is None else out
    if f[0] == 'lit':
        out.append(f)
    elif f[0] in ('and', 'or'):
        for x in f[1]:
            literals(x, out)
    return out


# --------------------------------------------------------------------------- path conditions

class Conds(object):
    """Execution conditions of every statement of a function.

    `cond[id(stmt)]` is the formula under which `stmt` runs, relative to function entry and,
    inside a loop, to one iteration of each enclosing loop (the condition of entering the loop
    is conjoined). `expander(expr, stmt)` canonicalises a test at its statement."""

    def __init__(self, fnode, expander=None):
        self.fn = fnode
        self.expander = expander
        self.cond = {}
        self.order = []
        self.loops = {}       # id(stmt) -> list of enclosing loop stmts
        self._block(fnode.body, TRUE, [])

    def _lit(self, test, st):
        e = self.expander(test, st) if self.expander else test
        return to_formula(e, True)

    def _block(self, stmts, live, loops):
        """returns the fall-through condition"""
        for st in stmts:
            self.cond[id(st)] = live
            self.order.append(st)
            self.loops[id(st)] = list(loops)
            if live == FALSE:
                # unreachable code after return/raise/continue: still recorded (FALSE)
                pass
            if isinstance(st, ast.If):
                t = self._lit(st.test, st)
                a = self._block(st.body, f_and(live, t), loops)
                b = self._block(st.orelse, f_and(live, f_not(t)), loops)
                live = f_or(a, b)
            elif isinstance(st, (ast.For, ast.While)):
                inner = live
                if isinstance(st, ast.While):
                    inner = f_and(live, self._lit(st.test, st))
                self._block(st.body, inner, loops + [st])
                if st.orelse:
                    self._block(st.orelse, live, loops)
            elif isinstance(st, (ast.Return, ast.Raise, ast.Continue, ast.Break)):
                live = FALSE
            elif isinstance(st, ast.With):
                live = self._block(st.body, live, loops)
            elif isinstance(st, ast.Try):
                body_live = self._block(st.body, live, loops)
                for h in st.handlers:
                    self._block(h.body, live, loops)
                if st.orelse:
                    body_live = self._block(st.orelse, body_live, loops)
                if st.finalbody:
                    self._block(st.finalbody, live, loops)
                live = body_live if not st.handlers else f_or(body_live, live)
        return live

    def of(self, st):
        if id(st) not in self.cond:
            raise AnalysisError('statement at line %s has no recorded condition' % getattr(st, 'lineno', '?'))
        return self.cond[id(st)]


# --------------------------------------------------------------------------- atom universe

CMP = {ast.Lt: '<', ast.LtE: '<=', ast.Gt: '>', ast.GtE: '>=', ast.Eq: '==', ast.NotEq: '!='}
FLIP = {'<': '>', '<=': '>=', '>': '<', '>=': '<=', '==': '==', '!=': '!='}
NEGOP = {'<': '>=', '<=': '>', '>': '<=', '>=': '<', '==': '!=', '!=': '=='}


def _holds(op, v, c):
    if op == '<':
        return v < c
    if op == '<=':
        return v <= c
    if op == '>':
        return v > c
    if op == '>=':
        return v >= c
    if op == '==':
        return v == c
    return v != c


class Universe(object):
    """Classifies atomic tests into variables. `env`/`fatoms` are passed to symx.Norm;
    `int_atoms(atomname) -> bool` tells which symbols are integral (len[...] always is)."""

    def __init__(self, env=None, int_atoms=None, alias=None):
        self.norm = Norm(env or {})
        self.int_atoms = int_atoms or (lambda a: False)
        self.alias = alias or (lambda s: s)
        self.vars = {}        # var key -> dict(kind=..., ...)
        self.cache = {}

    # -- classification ------------------------------------------------------------------
    def classify(self, e):
        k = id(e)
        if k in self.cache:
            return self.cache[k]
        r = self._classify(e)
        self.cache[k] = r
        return r

    def _is_int_poly(self, q):
        for mono, v in q.t.items():
            if Fraction(v).denominator != 1:
                return False
            for a, _ in mono:
                if not (a.startswith('len[') or self.int_atoms(a)):
                    return False
        return True

    def _classify(self, e):
        """-> ('num', varkey, op, const) | ('enum', varkey, frozenset(values), positive) |
               ('bool', varkey, positive)"""
        if isinstance(e, ast.Compare) and len(e.ops) == 1:
            op = type(e.ops[0])
            l, r = e.left, e.comparators[0]
            if op in CMP:
                # string literal equality -> enumerated variable
                if op in (ast.Eq, ast.NotEq):
                    for a, b in ((l, r), (r, l)):
                        if isinstance(b, ast.Constant) and isinstance(b.value, str):
                            return ('enum', self._ekey(a), frozenset([b.value]), op is ast.Eq)
                        if isinstance(b, ast.Constant) and b.value is None:
                            return ('bool', 'isnone:' + self._ekey(a), op is ast.Eq)
                try:
                    d = self.norm.visit(l) - self.norm.visit(r)
                    if not d.is_poly():
                        raise Unsupported('non-polynomial difference')
                    q, c = d.n.nonconst(), d.n.constval()
                    sop = CMP[op]
                    if not q.t:
                        # constant comparison
                        return ('const', _holds(sop, c, 0))
                    lead_k = sorted(q.t.keys(), key=str)[0]
                    lead = q.t[lead_k]
                    q = q.scale(1 / lead)
                    c = -c / lead
                    if lead < 0:
                        sop = FLIP[sop]
                    key = 'num:' + repr(q)
                    v = self.vars.setdefault(key, {'kind': 'num', 'consts': set(), 'int': self._is_int_poly(q)})
                    v['consts'].add(c)
                    return ('num', key, sop, c)
                except Unsupported:
                    pass
                return ('bool', 'cmp:' + self.alias(U(e)), True)
            if op in (ast.In, ast.NotIn) and isinstance(r, (ast.List, ast.Tuple, ast.Set)) \
                    and all(isinstance(x, ast.Constant) and isinstance(x.value, str) for x in r.elts):
                return ('enum', self._ekey(l), frozenset(x.value for x in r.elts), op is ast.In)
            if op in (ast.Is, ast.IsNot) and isinstance(r, ast.Constant) and r.value is None:
                return ('bool', 'isnone:' + self._ekey(l), op is ast.Is)
            if op in (ast.Is, ast.IsNot, ast.In, ast.NotIn):
                pos = op in (ast.Is, ast.In)
                e2 = ast.Compare(left=l, ops=[ast.Is() if op in (ast.Is, ast.IsNot) else ast.In()], comparators=[r])
                return ('bool', 'cmp:' + self.alias(U(e2)), pos)
        if isinstance(e, ast.Compare) and len(e.ops) == 1 and isinstance(e.ops[0], (ast.Eq, ast.NotEq)) \
                and isinstance(e.comparators[0], ast.Constant) and isinstance(e.comparators[0].value, bool):
            # `x == False` idiom
            inner = self.classify_truth(e.left)
            want = e.comparators[0].value == isinstance(e.ops[0], ast.Eq)
            return inner[:-1] + (inner[-1] == want,) if inner[0] == 'bool' else ('bool', 'cmp:' + self.alias(U(e)), True)
        return self.classify_truth(e)

    def classify_truth(self, e):
        return ('bool', 'truth:' + self.alias(U(e)), True)

    def _ekey(self, e):
        return self.alias(U(e))

    def note(self, f):
        """Register every literal of formula f (collects constants / enum values)."""
        for _, e, _ in literals(f):
            c = self.classify(e)
            if c[0] == 'enum':
                v = self.vars.setdefault('enum:' + c[1], {'kind': 'enum', 'values': set()})
                v['values'] |= set(c[2])
            elif c[0] == 'bool':
                self.vars.setdefault(c[1], {'kind': 'bool'})

    # -- enumeration ---------------------------------------------------------------------
    def domain(self, key):
        v = self.vars[key]
        if v['kind'] == 'bool':
            return [False, True]
        if v['kind'] == 'enum':
            return sorted(v['values']) + ['<other>']
        cs = sorted(v['consts'])
        pts = set()
        if v['int'] and all(c.denominator == 1 for c in cs) and cs[-1] - cs[0] <= 64:
            for x in range(int(cs[0]) - 1, int(cs[-1]) + 2):
                pts.add(Fraction(x))
        elif v['int']:
            for c in cs:
                lo, hi = (c.numerator // c.denominator), -((-c.numerator) // c.denominator)
                for x in (lo - 1, lo, hi, hi + 1):
                    pts.add(Fraction(x))
        else:
            pts.add(cs[0] - 1)
            pts.add(cs[-1] + 1)
            for a, b in zip(cs, cs[1:]):
                pts.add((a + b) / 2)
            pts |= set(cs)
        count_of_nulls = (key.startswith('num:call:sum[(call:pd.isnull[') or key.startswith('num:call:sum[(call:pd.isna[')) \
            and ' + ' not in key and '*' not in key
        if count_of_nulls or key.startswith('num:len[') and key.count('len[') == 1 and ' + ' not in key and '*' not in key.split(']')[-1]:
            nonneg = [x for x in pts if x >= 0]       # a length / a count of nulls is never negative
            if nonneg:
                return sorted(nonneg)
        return sorted(pts)

    def assignments(self, fixed=None, keys=None):
        keys = sorted(self.vars) if keys is None else keys
        fixed = fixed or {}
        doms = [[fixed[k]] if k in fixed else self.domain(k) for k in keys]
        total = 1
        for d in doms:
            total *= len(d)
        if total > 400000:
            raise AnalysisError('decision table too large (%d assignments over %d atoms)' % (total, len(keys)))
        for combo in itertools.product(*doms):
            d = dict(zip(keys, combo))
            d['__memo__'] = {}
            yield d

    def eval_lit(self, e, pol, asg):
        memo = asg.get('__memo__')
        if memo is not None:
            k = id(e)
            v = memo.get(k)
            if v is None:
                v = self._eval_raw(e, asg)
                memo[k] = v
            return v == pol
        return self._eval_raw(e, asg) == pol

    def _eval_raw(self, e, asg):
        pol = True
        c = self.classify(e)
        if c[0] == 'const':
            v = c[1]
        elif c[0] == 'num':
            v = _holds(c[2], asg[c[1]], c[3])
        elif c[0] == 'enum':
            v = (asg['enum:' + c[1]] in c[2]) == c[3]
        else:
            v = asg[c[1]] == c[2]
        return v == pol

    def eval(self, f, asg):
        if f == TRUE:
            return True
        if f == FALSE:
            return False
        if f[0] == 'lit':
            return self.eval_lit(f[1], f[2], asg)
        if f[0] == 'and':
            return all(self.eval(x, asg) for x in f[1])
        return any(self.eval(x, asg) for x in f[1])

    def vars_of(self, f):
        out = set()
        for _, e, _ in literals(f):
            c = self.classify(e)
            if c[0] == 'num':
                out.add(c[1])
            elif c[0] == 'enum':
                out.add('enum:' + c[1])
            elif c[0] == 'bool':
                out.add(c[1])
        return out

    def equivalent(self, f, g, fixed=None, assume=None):
        """-> None if f == g on every assignment (satisfying `assume`), else a witness assignment."""
        self.note(f)
        self.note(g)
        if assume is not None:
            self.note(assume)
        keys = sorted(self.vars_of(f) | self.vars_of(g) | (self.vars_of(assume) if assume is not None else set()))
        for asg in self.assignments(fixed, keys):
            if assume is not None and not self.eval(assume, asg):
                continue
            if self.eval(f, asg) != self.eval(g, asg):
                return asg
        return None

    def implies(self, f, g, fixed=None):
        self.note(f)
        self.note(g)
        keys = sorted(self.vars_of(f) | self.vars_of(g))
        for asg in self.assignments(fixed, keys):
            if self.eval(f, asg) and not self.eval(g, asg):
                return asg
        return None

    def satisfiable(self, f, fixed=None):
        self.note(f)
        for asg in self.assignments(fixed, sorted(self.vars_of(f))):
            if self.eval(f, asg):
                return asg
        return None


def show(f):
    if f == TRUE:
        return 'TRUE'
    if f == FALSE:
        return 'FALSE'
    if f[0] == 'lit':
        s = U(f[1])
        return s if f[2] else 'not(%s)' % s
    sep = ' and ' if f[0] == 'and' else ' or '
    return '(' + sep.join(show(x) for x in f[1]) + ')'


def show_asg(asg):
    return ', '.join('%s=%s' % (k.split(':', 1)[1] if ':' in k else k, v) for k, v in sorted(asg.items())
                     if k != '__memo__')


# --------------------------------------------------------------------------- decision tables

class Outcome(object):
    """One terminal of a loop-free decision: ('return', canonical expr text) / ('raise', type)"""

    def __init__(self, kind, key, cond, stmt):
        self.kind, self.key, self.cond, self.stmt = kind, key, cond, stmt


def outcomes(fnode, conds, expander=None, kinds=(ast.Return, ast.Raise)):
    """All return/raise statements of fnode with their conditions; implicit fall-off-the-end is
    reported as ('return', 'None')."""
    out = []
    for st in conds.order:
        if isinstance(st, ast.Return) and ast.Return in kinds:
            v = st.value
            if v is None:
                key = 'None'
            else:
                key = U(expander(v, st) if expander else v)
            out.append(Outcome('return', key, conds.of(st), st))
        elif isinstance(st, ast.Raise) and ast.Raise in kinds:
            exc = st.exc
            name = U(exc.func) if isinstance(exc, ast.Call) else (U(exc) if exc is not None else 'reraise')
            out.append(Outcome('raise', name, conds.of(st), st))
    return out
