"""Driver: /venv/bin/python -m ssjlint --property C01 --tier quick|thorough   (cwd=/verif)

exit 0  the property's rule instances all hold (KNOWN-FINDING lines allowed)
exit 1  `VIOLATION property=<id> replay=<path>` printed for every finding not listed as known
exit 2  `ANALYSIS-ERROR` - the source can no longer be recognised by a rule; undecided"""
import argparse
import json
import os
import sys
import time
import traceback
import warnings

warnings.simplefilter('ignore')

from . import AnalysisError, REPO_ROOT       # noqa: E402
from .model import Repo                      # noqa: E402
from .report import Ctx, split_known, write_evidence, write_replay   # noqa: E402


def run_property(prop, tier, repo=None, root=None):
    """-> (ctx, error or None). Pure analysis; no printing."""
    from .props import PROPS, UNDECIDED
    if prop not in PROPS:
        raise SystemExit('unknown or unclaimed property %s' % prop)
    if repo is None:
        repo = Repo.from_dir(root or os.environ.get('SSJLINT_REPO', REPO_ROOT))
    ctx = Ctx(repo, prop, tier)
    for u in UNDECIDED.get(prop, []):
        ctx.note_undecided(u)
    try:
        PROPS[prop][0](ctx)
        if ctx.errors:
            return ctx, 'ANALYSIS-ERROR %s: %s' % (prop, ' | '.join(ctx.errors))
    except AnalysisError as e:
        return ctx, 'ANALYSIS-ERROR %s: %s' % (prop, e)
    except RecursionError:
        return ctx, 'ANALYSIS-ERROR %s: recursion limit' % prop
    except Exception as e:       # a crash of the checker is never a violation
        tb = traceback.format_exc(limit=6)
        return ctx, 'ANALYSIS-ERROR %s: internal error %s: %s\n%s' % (prop, type(e).__name__, e, tb)
    return ctx, None


def main(argv=None):
    ap = argparse.ArgumentParser(prog='ssjlint')
    ap.add_argument('--property')
    ap.add_argument('--tier', default=os.environ.get('VERIF_TIER', 'quick'))
    ap.add_argument('--replay')
    ap.add_argument('--repo', default=None)
    ap.add_argument('--no-evidence', action='store_true')
    ap.add_argument('--rev', default=None, help='development aid: analyse a git revision of /repo')
    args = ap.parse_args(argv)
    if args.tier not in ('quick', 'thorough'):
        args.tier = 'quick'
    seed = int(os.environ.get('VERIF_SEED', '0') or 0)
    t0 = time.time()
    sys.setrecursionlimit(10000)

    replay_ident = None
    if args.replay:
        with open(args.replay) as fh:
            rp = json.load(fh)
        args.property = rp['property']
        replay_ident = rp['ident']

    from .props import PROPS
    prop = args.property
    if not prop:
        ap.error('--property or --replay required')
    try:
        repo = None
        if args.rev:
            repo = Repo.from_git(args.repo or REPO_ROOT, args.rev)
            args.no_evidence = True
        ctx, err = run_property(prop, args.tier, repo=repo, root=args.repo)
    except AnalysisError as e:
        print('ANALYSIS-ERROR %s: %s' % (prop, e))
        return 2
    extra = {}
    if err is None and args.tier == 'thorough' and not args.replay:
        from . import selftest
        try:
            extra = selftest.run_for_property(prop, ctx)
        except AnalysisError as e:
            err = 'ANALYSIS-ERROR %s: self-validation: %s' % (prop, e)
    if replay_ident is not None:
        hit = [f for f in ctx.findings if f.ident == replay_ident]
        if err:
            print(err)
            return 2
        if hit:
            f = hit[0]
            print('%s %s %s: %s' % (f.rule, f.loc, f.func, f.msg))
            print('VIOLATION property=%s replay=%s' % (prop, args.replay))
            return 1
        print('replay: finding %s no longer present on the current tree' % replay_ident)
        return 0

    new, old = split_known(prop, ctx.findings)
    for f, k in old:
        print('KNOWN-FINDING: property=%s %s %s/%s: %s [input: %s]' % (prop, f.rule, f.func, f.key, k.get('what', f.msg),
                                                                    k.get('input', '')))
    status = 0
    for f in new:
        path = write_replay(prop, f)
        print('%s %s %s: %s' % (f.rule, f.loc, f.func, f.msg))
        print('VIOLATION property=%s replay=%s' % (prop, path))
        status = 1
    if err:
        print(err)
        status = 2 if status == 0 else status
    n_ob = len(ctx.obligations)
    print('%s %s: %d rule instances over %d functions, %d held, %d known, %d new; groups: %s'
          % (prop, args.tier, n_ob, len(ctx.functions), len([o for o in ctx.obligations if o[3]]), len(old), len(new),
             ' '.join(ctx.rule_groups)))
    if not args.no_evidence:
        extra['known_findings_reported'] = [f.ident for f, _ in old]
        write_evidence(ctx, PROPS[prop][1], time.time() - t0, seed, len(new), extra=extra, error=err)
    return status


if __name__ == '__main__':
    try:
        rc = main()
    except SystemExit:
        raise
    except BaseException as e:      # noqa
        print('ANALYSIS-ERROR: driver crashed: %s: %s' % (type(e).__name__, e))
        traceback.print_exc(limit=5)
        rc = 2
    sys.stdout.flush()
    os._exit(rc)
