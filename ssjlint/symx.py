"""Numeric expression -> rational function over symbols.

Polynomials have Fraction coefficients; `ceil, floor, round, sqrt, min, max, len, abs` and any
other call are uninterpreted atoms over recursively normalised arguments (atoms are interned by
*semantic* equality of their arguments, so `ceil(t*n)` and `ceil(n*t)` are one atom);
`int()/float()` wrappers are erased. Decides `a == b` and `a - b == constant`."""
import ast
from fractions import Fraction

from .model import U


class Unsupported(Exception):
    pass


class Poly(object):
    __slots__ = ('t',)

    def __init__(self, terms=None):
        self.t = {k: v for k, v in (terms or {}).items() if v != 0}

    @staticmethod
    def const(c):
        return Poly({(): Fraction(c)})

    @staticmethod
    def atom(a):
        return Poly({((a, 1),): Fraction(1)})

    def __add__(s, o):
        r = dict(s.t)
        for k, v in o.t.items():
            r[k] = r.get(k, 0) + v
        return Poly(r)

    def __neg__(s):
        return Poly({k: -v for k, v in s.t.items()})

    def __sub__(s, o):
        return s + (-o)

    def __mul__(s, o):
        r = {}
        for k1, v1 in s.t.items():
            for k2, v2 in o.t.items():
                d = dict(k1)
                for a, e in k2:
                    d[a] = d.get(a, 0) + e
                k = tuple(sorted((a, e) for a, e in d.items() if e))
                r[k] = r.get(k, 0) + v1 * v2
        return Poly(r)

    def scale(s, c):
        return Poly({k: v * c for k, v in s.t.items()})

    def __eq__(s, o):
        return s.t == o.t

    def __ne__(s, o):
        return s.t != o.t

    def is_const(s):
        return all(k == () for k in s.t)

    def constval(s):
        return s.t.get((), Fraction(0))

    def nonconst(s):
        return Poly({k: v for k, v in s.t.items() if k != ()})

    def atoms(s):
        out = set()
        for k in s.t:
            for a, _ in k:
                out.add(a)
        return out

    def key(s):
        return tuple(sorted((k, str(v)) for k, v in s.t.items()))

    def __repr__(s):
        if not s.t:
            return '0'
        out = []
        for k, v in sorted(s.t.items(), key=lambda kv: str(kv[0])):
            m = '*'.join((a if e == 1 else '%s^%d' % (a, e)) for a, e in k)
            out.append(str(v) if not m else (m if v == 1 else '%s*%s' % (v, m)))
        return ' + '.join(out)


class Rat(object):
    __slots__ = ('n', 'd')

    def __init__(s, n, d=None):
        s.n = n
        s.d = d if d is not None else Poly.const(1)
        if s.d.is_const() and s.d.constval() != 0 and s.d.constval() != 1:
            s.n = s.n.scale(1 / s.d.constval())
            s.d = Poly.const(1)

    @staticmethod
    def const(c):
        return Rat(Poly.const(c))

    @staticmethod
    def atom(a):
        return Rat(Poly.atom(a))

    def __add__(s, o):
        if s.d == o.d:
            return Rat(s.n + o.n, s.d)
        return Rat(s.n * o.d + o.n * s.d, s.d * o.d)

    def __sub__(s, o):
        if s.d == o.d:
            return Rat(s.n - o.n, s.d)
        return Rat(s.n * o.d - o.n * s.d, s.d * o.d)

    def __mul__(s, o):
        return Rat(s.n * o.n, s.d * o.d)

    def __truediv__(s, o):
        if not o.n.t:
            raise Unsupported('division by zero polynomial')
        return Rat(s.n * o.d, s.d * o.n)

    def __neg__(s):
        return Rat(-s.n, s.d)

    def __eq__(s, o):
        return s.n * o.d == o.n * s.d

    def __ne__(s, o):
        return not s == o

    def is_poly(s):
        return s.d.is_const()

    def diff_const(s, o):
        """Fraction c if s - o == c identically, else None."""
        num = s.n * o.d - o.n * s.d
        den = s.d * o.d
        if not num.t:
            return Fraction(0)
        k = next(iter(den.t))
        if k not in num.t:
            return None
        c = num.t[k] / den.t[k]
        return c if num == den.scale(c) else None

    def as_const(s):
        return s.diff_const(Rat.const(0))

    def single_atom(s):
        """-> (atom, coeff, const) if s == coeff*atom + const for one atom, else None."""
        if not s.is_poly():
            return None
        nc = s.n.nonconst()
        if len(nc.t) != 1:
            return None
        (k, v), = nc.t.items()
        if len(k) != 1 or k[0][1] != 1:
            return None
        return k[0][0], v, s.n.constval()

    def atoms(s):
        return s.n.atoms() | s.d.atoms()

    def canon(s):
        if s.d.is_const():
            return '(%r)' % (s.n,)
        return '(%r)/(%r)' % (s.n, s.d)

    __repr__ = canon


class Norm(object):
    """ast.expr -> Rat. `env` maps names (or unparsed attribute chains) to Rat or to another name.
    Function atoms are interned in `self.fatoms`: key -> (fname, [Rat args])."""

    ERASE = ('int', 'float')

    def __init__(self, env=None, fatoms=None, erase=None):
        self.env = env or {}
        self.fatoms = fatoms if fatoms is not None else {}
        if erase is not None:
            self.ERASE = tuple(erase)

    def sym(self, name):
        v = self.env.get(name)
        if isinstance(v, Rat):
            return v
        if isinstance(v, str):
            name = v
        return Rat.atom(name)

    def fatom(self, fname, args, commutative=False):
        if commutative:
            args = sorted(args, key=lambda a: a.canon())
        for key, (fn, a2) in self.fatoms.items():
            if fn == fname and len(a2) == len(args) and all(x == y for x, y in zip(args, a2)):
                return Rat.atom(key)
        key = '%s[%s]' % (fname, '; '.join(a.canon() for a in args))
        self.fatoms[key] = (fname, list(args))
        return Rat.atom(key)

    def visit(self, e):
        if isinstance(e, ast.Constant):
            if isinstance(e.value, bool) or not isinstance(e.value, (int, float)):
                raise Unsupported('non-numeric constant %r' % (e.value,))
            return Rat.const(Fraction(str(e.value)))
        if isinstance(e, ast.Name):
            return self.sym(e.id)
        if isinstance(e, ast.Attribute):
            return self.sym(U(e))
        if isinstance(e, ast.UnaryOp):
            if isinstance(e.op, ast.USub):
                return -self.visit(e.operand)
            if isinstance(e.op, ast.UAdd):
                return self.visit(e.operand)
            raise Unsupported(U(e))
        if isinstance(e, ast.BinOp):
            a, b = self.visit(e.left), self.visit(e.right)
            if isinstance(e.op, ast.Add):
                return a + b
            if isinstance(e.op, ast.Sub):
                return a - b
            if isinstance(e.op, ast.Mult):
                return a * b
            if isinstance(e.op, ast.Div):
                return a / b
            if isinstance(e.op, ast.Pow):
                c = b.as_const()
                if c is not None and c.denominator == 1 and 0 <= c <= 6:
                    r = Rat.const(1)
                    for _ in range(int(c)):
                        r = r * a
                    return r
                return self.fatom('pow', [a, b])
            if isinstance(e.op, ast.FloorDiv):
                return self.fatom('floordiv', [a / b])
            raise Unsupported(U(e))
        if isinstance(e, ast.Call):
            if e.keywords:
                raise Unsupported('keyword call ' + U(e))
            fn = U(e.func)
            short = fn.split('.')[-1]
            if short in self.ERASE and len(e.args) == 1 and fn == short:
                return self.visit(e.args[0])
            args = []
            for a in e.args:
                try:
                    args.append(self.visit(a))
                except Unsupported:
                    args.append(Rat.atom('`' + U(a) + '`'))
            if short in ('ceil', 'floor', 'sqrt', 'round', 'abs') and fn in (short, 'math.' + short, 'np.' + short):
                if short == 'round' and len(args) == 1:
                    args.append(Rat.const(0))
                if short == 'abs' and len(args) == 1:
                    neg = -args[0]
                    if neg.canon() < args[0].canon():      # |x| == |-x|: one atom for both spellings
                        args = [neg]
                return self.fatom(short, args)
            if fn in ('min', 'max'):
                if len(args) == 1:
                    return self.fatom(fn, args)
                # shift-invariant canonical form: max(a_i) = mean + max(a_i - mean)
                mean = args[0]
                for a in args[1:]:
                    mean = mean + a
                mean = mean * Rat.const(Fraction(1, len(args)))
                return mean + self.fatom(fn, [a - mean for a in args], commutative=True)
            if fn == 'len':
                return self.fatom('len', args)
            return self.fatom('call:' + fn, args)
        if isinstance(e, ast.Subscript):
            return Rat.atom(U(e))
        if isinstance(e, ast.IfExp):
            raise Unsupported('conditional expression')
        raise Unsupported(type(e).__name__ + ': ' + U(e))

    def info(self, atom):
        return self.fatoms.get(atom)


def nonneg(norm, rat, names=()):
    """True when `rat` is a polynomial whose every term is a non-negative coefficient times a product of atoms that
    cannot be negative: |..|, len(..), and the given names (sufficient, not necessary)"""
    if not rat.is_poly():
        return False
    for mono, coeff in rat.n.t.items():
        if coeff < 0:
            return False
        for a, _ in mono:
            info = norm.info(a)
            if info is not None and info[0] in ('abs', 'len'):
                continue
            if a in names:
                continue
            return False
    return True
