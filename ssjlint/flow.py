"""Statement-level CFG, dominators, reaching definitions and expression expansion."""
import ast
import copy

from . import AnalysisError

SIMPLE = (ast.Assign, ast.AugAssign, ast.AnnAssign, ast.Expr, ast.Pass, ast.Import, ast.ImportFrom,
          ast.Delete, ast.Global, ast.Nonlocal, ast.Assert, ast.FunctionDef, ast.ClassDef)


class Node(object):
    __slots__ = ('id', 'kind', 'ast', 'succ', 'pred', 'loop')

    def __init__(self, id_, kind, node=None):
        self.id = id_
        self.kind = kind      # entry exit rexit stmt test loop return raise continue break join
        self.ast = node
        self.succ = []        # (node id, label)
        self.pred = []
        self.loop = None

    def __repr__(self):
        return '<%d %s %s>' % (self.id, self.kind, getattr(self.ast, 'lineno', ''))


class CFG(object):
    """CFG of one function. Branch nodes (`test`, `loop`) carry labelled out-edges
    ('T'/'F' for tests, 'iter'/'done' for loops). Explicit `raise` goes to `rexit`
    (through enclosing `finally` bodies, which are duplicated per exit kind). Calls
    inside a `try` body additionally get an 'exc' edge to the handler/finally copy."""

    def __init__(self, fnode):
        self.fn = fnode
        self.nodes = []
        self.entry = self._new('entry')
        self.exit = self._new('exit')
        self.rexit = self._new('rexit')
        self.of_stmt = {}      # id(ast stmt) -> [node ids]   (finally copies produce several)
        first = self._block(fnode.body, self.exit.id, _Ctx(self.exit.id, self.rexit.id))
        self._edge(self.entry.id, first, None)
        for n in self.nodes:
            for s, lab in n.succ:
                self.nodes[s].pred.append((n.id, lab))

    def _new(self, kind, node=None):
        n = Node(len(self.nodes), kind, node)
        self.nodes.append(n)
        if node is not None:
            self.of_stmt.setdefault(id(node), []).append(n.id)
        return n

    def _edge(self, a, b, lab):
        self.nodes[a].succ.append((b, lab))

    def _block(self, stmts, nxt, ctx):
        """Build nodes for stmts so that control continues at node id `nxt`. Returns entry id."""
        cur = nxt
        for st in reversed(stmts):
            cur = self._stmt(st, cur, ctx)
        return cur

    def _stmt(self, st, nxt, ctx):
        if isinstance(st, ast.If):
            t = self._new('test', st)
            b = self._block(st.body, nxt, ctx)
            o = self._block(st.orelse, nxt, ctx)
            self._edge(t.id, b, 'T')
            self._edge(t.id, o, 'F')
            if ctx.in_try and any(isinstance(x, ast.Call) for x in ast.walk(st.test)):
                self._edge(t.id, ctx.raise_target(self), 'exc')
            return t.id
        if isinstance(st, (ast.For, ast.While)):
            h = self._new('loop', st)
            after = self._block(st.orelse, nxt, ctx) if st.orelse else nxt
            c2 = ctx.loop(h.id, nxt)
            b = self._block(st.body, h.id, c2)
            self._edge(h.id, b, 'iter')
            self._edge(h.id, after, 'done')
            return h.id
        if isinstance(st, ast.Return):
            n = self._new('return', st)
            self._edge(n.id, ctx.unwind(self, 'return', ctx.ret), None)
            if ctx.in_try and st.value is not None and any(isinstance(x, ast.Call) for x in ast.walk(st.value)):
                self._edge(n.id, ctx.raise_target(self), 'exc')
            return n.id
        if isinstance(st, ast.Raise):
            n = self._new('raise', st)
            self._edge(n.id, ctx.raise_target(self), None)
            return n.id
        if isinstance(st, ast.Continue):
            n = self._new('continue', st)
            if ctx.cont is None:
                raise AnalysisError('continue outside loop')
            self._edge(n.id, ctx.unwind(self, 'continue', ctx.cont, loop_only=True), None)
            return n.id
        if isinstance(st, ast.Break):
            n = self._new('break', st)
            self._edge(n.id, ctx.unwind(self, 'break', ctx.brk, loop_only=True), None)
            return n.id
        if isinstance(st, ast.With):
            n = self._new('stmt', st)
            b = self._block(st.body, nxt, ctx)
            self._edge(n.id, b, None)
            return n.id
        if isinstance(st, ast.Try):
            return self._try(st, nxt, ctx)
        if isinstance(st, SIMPLE):
            n = self._new('stmt', st)
            self._edge(n.id, nxt, None)
            if ctx.in_try and any(isinstance(x, ast.Call) for x in ast.walk(st)):
                self._edge(n.id, ctx.raise_target(self), 'exc')
            return n.id
        raise AnalysisError('unmodelled statement kind %s at line %s' % (type(st).__name__, st.lineno))

    def _try(self, st, nxt, ctx):
        fin = st.finalbody
        fin_normal = self._block(fin, nxt, ctx) if fin else nxt
        memo = {}

        def fin_then_raise(cfg):
            if 'f' not in memo:
                memo['f'] = cfg._block(fin, ctx.raise_target(cfg), ctx) if fin else ctx.raise_target(cfg)
            return memo['f']
        inner = (ctx.with_finally(fin) if fin else ctx).with_raise(fin_then_raise, ctx.in_try)
        after_body = self._block(st.orelse, fin_normal, inner) if st.orelse else fin_normal

        def body_raise(cfg):
            if 'b' not in memo:
                if st.handlers:
                    j = cfg._new('join', None)
                    memo['b'] = j.id
                    for h in st.handlers:
                        hb = cfg._block(h.body, fin_normal, inner)
                        cfg._edge(j.id, hb, 'handler')
                    cfg._edge(j.id, fin_then_raise(cfg), 'unhandled')
                else:
                    memo['b'] = fin_then_raise(cfg)
            return memo['b']
        body_ctx = inner.with_raise(body_raise, True)
        return self._block(st.body, after_body, body_ctx)

    # ------------------------------------------------------------------ queries
    def nodes_of(self, st):
        return [self.nodes[i] for i in self.of_stmt.get(id(st), [])]

    def node_of(self, st):
        ns = self.nodes_of(st)
        if not ns:
            raise AnalysisError('statement at line %s not in CFG' % getattr(st, 'lineno', '?'))
        return ns[0]

    def reachable(self, start, avoid=(), labels_excluded=()):
        seen = set()
        todo = [start]
        avoid = set(avoid)
        while todo:
            x = todo.pop()
            if x in seen or x in avoid:
                continue
            seen.add(x)
            for s, lab in self.nodes[x].succ:
                if lab in labels_excluded:
                    continue
                todo.append(s)
        return seen

    def dominators(self):
        ids = [n.id for n in self.nodes]
        reach = self.reachable(self.entry.id)
        dom = {i: set(reach) for i in reach}
        dom[self.entry.id] = {self.entry.id}
        changed = True
        while changed:
            changed = False
            for i in ids:
                if i not in reach or i == self.entry.id:
                    continue
                ps = [p for p, _ in self.nodes[i].pred if p in reach]
                new = set.intersection(*[dom[p] for p in ps]) if ps else set()
                new = new | {i}
                if new != dom[i]:
                    dom[i] = new
                    changed = True
        return dom

    def must_pass(self, start, targets, goal):
        """True iff every path start ->* goal passes through a node in `targets`
        (i.e. goal is unreachable from start once targets are removed)."""
        if start in targets:
            return True
        return goal not in self.reachable(start, avoid=targets)

    def stmts_in_order(self):
        return [n for n in self.nodes if n.ast is not None]


class _Ctx(object):
    def __init__(self, ret, rexit, cont=None, brk=None, fins=(), raise_fn=None, in_try=False, loop_depth=0):
        self.ret = ret
        self.rexit = rexit
        self.cont = cont
        self.brk = brk
        self.fins = tuple(fins)       # (finalbody, loop_depth at which it was entered, ctx outside it)
        self.raise_fn = raise_fn
        self.in_try = in_try
        self.loop_depth = loop_depth

    def raise_target(self, cfg):
        return self.raise_fn(cfg) if self.raise_fn is not None else self.rexit

    def loop(self, head, after):
        return _Ctx(self.ret, self.rexit, head, after, self.fins, self.raise_fn, self.in_try, self.loop_depth + 1)

    def with_finally(self, fin):
        return _Ctx(self.ret, self.rexit, self.cont, self.brk, self.fins + ((fin, self.loop_depth, self),),
                    self.raise_fn, self.in_try, self.loop_depth)

    def with_raise(self, fn, in_try):
        return _Ctx(self.ret, self.rexit, self.cont, self.brk, self.fins, fn, in_try, self.loop_depth)

    def unwind(self, cfg, kind, target, loop_only=False):
        """Route return/continue/break through the enclosing finally bodies (innermost first)."""
        fins = list(self.fins)
        if loop_only:
            fins = [f for f in fins if f[1] >= self.loop_depth]
        cur = target
        for fin, _, outer in fins:          # outermost first: each continues to what was built so far
            cur = cfg._block(fin, cur, outer)
        return cur


# --------------------------------------------------------------------------- defs / uses

def target_names(t):
    if isinstance(t, ast.Name):
        return [t.id]
    if isinstance(t, (ast.Tuple, ast.List)):
        out = []
        for e in t.elts:
            out += target_names(e)
        return out
    if isinstance(t, ast.Starred):
        return target_names(t.value)
    return []


def defs_of_node(n):
    """Names (re)bound by CFG node n -> list of (name, defining ast node, value expr or None)."""
    st = n.ast
    out = []
    if n.kind == 'loop' and isinstance(st, ast.For):
        for nm in target_names(st.target):
            out.append((nm, st, None))
    elif n.kind == 'stmt':
        if isinstance(st, ast.Assign):
            for t in st.targets:
                if isinstance(t, ast.Name):
                    out.append((t.id, st, st.value))
                elif isinstance(t, (ast.Tuple, ast.List)) and all(isinstance(e, ast.Name) for e in t.elts) \
                        and isinstance(st.value, (ast.Call, ast.Tuple)):
                    for i, e in enumerate(t.elts):
                        out.append((e.id, st, ast.Subscript(value=st.value, slice=ast.Constant(i), ctx=ast.Load())))
                else:
                    for nm in target_names(t):
                        out.append((nm, st, None))
        elif isinstance(st, ast.AugAssign) and isinstance(st.target, ast.Name):
            out.append((st.target.id, st, None))
        elif isinstance(st, ast.AnnAssign) and isinstance(st.target, ast.Name) and st.value is not None:
            out.append((st.target.id, st, st.value))
        elif isinstance(st, ast.With):
            for it in st.items:
                if it.optional_vars is not None:
                    for nm in target_names(it.optional_vars):
                        out.append((nm, st, None))
        elif isinstance(st, (ast.Import, ast.ImportFrom)):
            for a in st.names:
                out.append(((a.asname or a.name).split('.')[0], st, None))
        elif isinstance(st, (ast.FunctionDef, ast.ClassDef)):
            out.append((st.name, st, None))
    return out


class Def(object):
    __slots__ = ('name', 'node', 'value', 'cfgnode', 'idx')

    def __init__(self, name, node, value, cfgnode, idx):
        self.name, self.node, self.value, self.cfgnode, self.idx = name, node, value, cfgnode, idx

    def __repr__(self):
        return '<def %s@%s>' % (self.name, getattr(self.node, 'lineno', 'param'))


class FuncView(object):
    """CFG + reaching definitions + expression expansion for one function."""

    def __init__(self, finfo):
        self.f = finfo
        self.cfg = CFG(finfo.node)
        self.defs = []
        self.param_defs = {}
        for p in finfo.params + finfo.kwonly:
            d = Def(p, None, None, self.cfg.entry.id, len(self.defs))
            self.defs.append(d)
            self.param_defs[p] = d
        a = finfo.node.args
        for extra in (a.vararg, a.kwarg):
            if extra is not None:
                d = Def(extra.arg, None, None, self.cfg.entry.id, len(self.defs))
                self.defs.append(d)
                self.param_defs[extra.arg] = d
        self.node_defs = {}
        for n in self.cfg.nodes:
            ds = []
            for nm, st, val in defs_of_node(n):
                d = Def(nm, st, val, n.id, len(self.defs))
                self.defs.append(d)
                ds.append(d)
            self.node_defs[n.id] = ds
        self._reach()
        self._dom = None
        self._stmt_index = None
        self._mutated = None

    def _reach(self):
        cfg = self.cfg
        IN = {n.id: set() for n in cfg.nodes}
        OUT = {n.id: set() for n in cfg.nodes}
        OUT[cfg.entry.id] = set(d.idx for d in self.param_defs.values())
        work = [n.id for n in cfg.nodes]
        while work:
            i = work.pop(0)
            n = cfg.nodes[i]
            if i != cfg.entry.id:
                new_in = set()
                for p, _ in n.pred:
                    new_in |= OUT[p]
                IN[i] = new_in
                killed = set(d.name for d in self.node_defs[i])
                out = set(x for x in new_in if self.defs[x].name not in killed) | set(d.idx for d in self.node_defs[i])
            else:
                out = OUT[i]
            if out != OUT[i] or i == cfg.entry.id:
                changed = out != OUT[i]
                OUT[i] = out
                if changed or i == cfg.entry.id:
                    for s, _ in n.succ:
                        if s not in work:
                            work.append(s)
        self.IN, self.OUT = IN, OUT

    @property
    def dom(self):
        if self._dom is None:
            self._dom = self.cfg.dominators()
        return self._dom

    def dominates(self, a_stmt, b_stmt):
        """every CFG copy of b is dominated by some copy of a"""
        an = set(n.id for n in self.cfg.nodes_of(a_stmt))
        for b in self.cfg.nodes_of(b_stmt):
            if b.id not in self.dom:
                continue    # unreachable copy
            if not (an & self.dom[b.id]):
                return False
        return True

    def reaching(self, name, stmt):
        """Definitions of `name` reaching the CFG node of `stmt` (before it executes)."""
        n = self.cfg.node_of(stmt) if not isinstance(stmt, Node) else stmt
        return [self.defs[i] for i in sorted(self.IN[n.id]) if self.defs[i].name == name]

    # ------------------------------------------------------------------ statements
    def stmt_of(self, node):
        """Innermost CFG statement whose header/simple part contains ast `node`."""
        if self._stmt_index is None:
            idx = {}
            for n in self.cfg.nodes:
                st = n.ast
                if st is None:
                    continue
                idx.setdefault(id(st), st)
                for part in _header_parts(st):
                    for x in ast.walk(part):
                        idx[id(x)] = st
            self._stmt_index = idx
        st = self._stmt_index.get(id(node))
        if st is None:
            raise AnalysisError('%s: node at line %s is not inside a CFG statement'
                                % (self.f.where, getattr(node, 'lineno', '?')))
        return st

    # ------------------------------------------------------------------ expansion
    def expand(self, expr, stmt, depth=12, stop=None, keep=(), inline=True):
        """Substitute every local name by its unique reaching definition's value (recursively).
        Names with several reaching defs, loop targets, parameters and `keep` names stay; a
        re-defined name that cannot be substituted is tagged `name@line` so two different
        versions never compare equal. Returns a new expression AST."""
        view = self

        class T(ast.NodeTransformer):
            def visit_Name(s, n):
                if not isinstance(n.ctx, ast.Load) or n.id in keep:
                    return n
                ds = view.reaching(n.id, stmt)
                if not ds:
                    return n          # global / builtin / imported
                if len(ds) == 1:
                    d = ds[0]
                    if d.node is None:
                        return n      # parameter
                    if d.value is not None and depth > 0 and (stop is None or not stop(d)) \
                            and not isinstance(d.value, (ast.ListComp, ast.DictComp, ast.SetComp, ast.GeneratorExp)) \
                            and not (isinstance(d.value, (ast.List, ast.Dict, ast.Set)) and view.is_mutated(n.id)):
                        return view.expand(copy.deepcopy(d.value), d.node, depth - 1, stop, keep, inline)
                    if view.n_defs(n.id) <= 1:
                        return n      # the only definition of this name in the function (loop target, container)
                    return ast.copy_location(ast.Name(id='%s@%d' % (n.id, d.node.lineno), ctx=ast.Load()), n)
                tag = '|'.join(str(d.node.lineno) if d.node is not None else 'p' for d in ds)
                return ast.copy_location(ast.Name(id='%s@%s' % (n.id, tag), ctx=ast.Load()), n)

            def visit_Lambda(s, n):
                return n

            def visit_GeneratorExp(s, n):
                return n

            def visit_ListComp(s, n):
                return n

            def visit_Call(s, n):
                orig = n
                n = s.generic_visit(n)
                # CONST_TABLE.get(key[, default]) over a module-level dict of constants that is never written: the
                # conditional chain it stands for
                if isinstance(n.func, ast.Attribute) and n.func.attr == 'get' and isinstance(n.func.value, ast.Name) \
                        and 1 <= len(n.args) <= 2 and not n.keywords and not view.reaching(n.func.value.id, stmt):
                    d = s._const_dict(n.func.value.id)
                    if d is not None:
                        return s._lookup_chain(d, n.args[0], n.args[1] if len(n.args) == 2 else ast.Constant(None))
                if depth > 0 and inline:
                    r = inline_simple_call(view, orig, n)
                    if r is not None:
                        return view.expand(r, stmt, depth - 1, stop, keep, inline)
                return n

            def visit_Subscript(s, n):
                n = s.generic_visit(n)
                if isinstance(n.value, ast.Tuple) and isinstance(n.slice, ast.Constant) and isinstance(n.slice.value, int) \
                        and 0 <= n.slice.value < len(n.value.elts):
                    return n.value.elts[n.slice.value]
                return n

            def _const_dict(s, name):
                m = view.f.module
                d = m.globals.get(name)
                if isinstance(d, ast.Dict) and d.keys and all(isinstance(k, ast.Constant) for k in d.keys) \
                        and all(isinstance(v, ast.Constant) for v in d.values) and len(d.keys) <= 8:
                    # never written anywhere in the module
                    for x in ast.walk(m.tree):
                        if isinstance(x, ast.Subscript) and isinstance(x.ctx, (ast.Store, ast.Del)) and isinstance(x.value, ast.Name) and x.value.id == name:
                            return None
                        if isinstance(x, ast.Call) and isinstance(x.func, ast.Attribute) and isinstance(x.func.value, ast.Name) \
                                and x.func.value.id == name and x.func.attr in ('update', 'pop', 'clear', 'setdefault', 'popitem'):
                            return None
                    return d
                return None

            def _lookup_chain(s, d, key, default):
                out = default
                for k, v in reversed(list(zip(d.keys, d.values))):
                    out = ast.IfExp(test=ast.Compare(left=key, ops=[ast.Eq()], comparators=[k]), body=v, orelse=out)
                return out

            def visit_Attribute(s, n):
                n = s.generic_visit(n)
                # <namedtuple constructor call>.field  ->  the argument bound to that field
                v = n.value
                if isinstance(v, ast.Call) and isinstance(v.func, ast.Name) and isinstance(n.ctx, ast.Load):
                    repo = getattr(view.f.module, 'repo', None)
                    fields = repo.namedtuple_fields(view.f.module, v.func.id, view.f) if repo is not None else None
                    if fields and n.attr in fields and not any(isinstance(a, ast.Starred) for a in v.args):
                        i = fields.index(n.attr)
                        if i < len(v.args):
                            return v.args[i]
                        for k in v.keywords:
                            if k.arg == n.attr:
                                return k.value
                return n
        return T().visit(copy.deepcopy(expr))

    def is_mutated(self, name):
        """the object bound to `name` is changed in place somewhere in the function"""
        if self._mutated is None:
            mut = set()
            for x in ast.walk(self.f.node):
                if isinstance(x, ast.Call) and isinstance(x.func, ast.Attribute) and isinstance(x.func.value, ast.Name) \
                        and x.func.attr in ('append', 'extend', 'insert', 'pop', 'remove', 'clear', 'sort', 'reverse',
                                            'update', 'add', 'discard', 'setdefault', 'popitem'):
                    mut.add(x.func.value.id)
                if isinstance(x, (ast.Assign, ast.AugAssign, ast.Delete)):
                    ts = x.targets if not isinstance(x, ast.AugAssign) else [x.target]
                    for t in ts:
                        if isinstance(t, ast.Subscript) and isinstance(t.value, ast.Name):
                            mut.add(t.value.id)
            self._mutated = mut
        return name in self._mutated

    def n_defs(self, name):
        return len([d for d in self.defs if d.name == name])

    def single_def(self, name, stmt):
        ds = self.reaching(name, stmt)
        return ds[0] if len(ds) == 1 else None


NO_INLINE = set()


def simple_return(callee):
    """The expression a *simple helper* returns, over its own parameters: the body is straight-line
    (assignments to names, then one return). -> expr or None"""
    body = [x for x in callee.node.body if not (isinstance(x, ast.Expr) and isinstance(x.value, ast.Constant))]
    if body and isinstance(body[0], ast.If) or (len(body) > 1 and any(isinstance(x, ast.If) for x in body)):
        e = _branching_return(body)
        if e is not None:
            return e
    if not body or not isinstance(body[-1], ast.Return) or body[-1].value is None:
        return None
    for x in body[:-1]:
        if not (isinstance(x, ast.Assign) and all(isinstance(t, ast.Name) for t in x.targets)):
            return None
    if len(body) > 8:
        return None
    cv = view_of(callee)
    return cv.expand(body[-1].value, body[-1], inline=True)


def _branching_return(stmts):
    """`if c: return a  [elif ..]  ...  return z` over parameters only (no assignments, loops, calls with
    effects) -> nested conditional expression, else None"""
    if not stmts:
        return None
    st = stmts[0]
    if isinstance(st, ast.Return) and st.value is not None and len(stmts) == 1:
        return st.value
    if isinstance(st, ast.If):
        a = _branching_return(st.body)
        if a is None:
            return None
        rest = st.orelse if st.orelse else stmts[1:]
        if st.orelse and len(stmts) > 1:
            return None
        b = _branching_return(rest)
        if b is None:
            return None
        return ast.IfExp(test=st.test, body=a, orelse=b)
    return None


def inline_simple_call(view, orig_call, expanded_call):
    """orig_call (a node of view's function, or a copy) resolved to a simple repository helper ->
    its return expression with parameters replaced by the (expanded) arguments"""
    repo = getattr(view.f.module, 'repo', None)
    if repo is None:
        return None
    try:
        r = repo._resolve(view.f, orig_call, repo.local_types(view.f))
    except Exception:
        return None
    if r is None:
        return None
    callee, kind, args, kws = r
    if callee.where in NO_INLINE or callee.name.startswith('validate_') or callee is view.f:
        return None
    # only helpers, never the documented building blocks rules match by name
    if callee.name in ('get_prefix_length', 'get_size_lower_bound', 'get_size_upper_bound', 'get_overlap_threshold',
                       'get_output_row_from_tables', 'get_output_header_from_tables', 'find_output_attribute_indices',
                       'convert_dataframe_to_array', 'get_attrs_to_project', 'remove_redundant_attrs', 'split_table',
                       'get_num_processes_to_launch', 'build_dict_from_table', 'generate_tokens', 'overlap',
                       'get_sim_function', 'order_using_token_ordering', 'gen_token_ordering_for_tables',
                       'gen_token_ordering_for_lists', 'get_pairs_with_missing_value', 'series_to_str'):
        return None
    e = simple_return(callee)
    if e is None:
        return None
    from .model import bind
    b = bind(callee, kind, expanded_call.args, expanded_call.keywords)
    mapping = {}
    params = list(callee.params)
    if kind in ('method', 'ctor') and params and params[0] == 'self':
        recv = expanded_call.func.value if isinstance(expanded_call.func, ast.Attribute) else None
        if recv is None:
            return None
        mapping['self'] = recv
    for p_, a in b.items():
        mapping[p_] = a
    missing = [p_ for p_ in (params[1:] if 'self' in mapping else params) if p_ not in mapping]
    if missing:
        return None

    class S(ast.NodeTransformer):
        def visit_Name(s, n):
            if isinstance(n.ctx, ast.Load) and n.id in mapping:
                return copy.deepcopy(mapping[n.id])
            return n

        def visit_Lambda(s, n):
            return n
    return S().visit(copy.deepcopy(e))


def _header_parts(st):
    if isinstance(st, ast.If):
        return [st.test]
    if isinstance(st, ast.While):
        return [st.test]
    if isinstance(st, ast.For):
        return [st.target, st.iter]
    if isinstance(st, ast.With):
        return [i.context_expr for i in st.items] + [i.optional_vars for i in st.items if i.optional_vars is not None]
    if isinstance(st, ast.Try):
        return []
    if isinstance(st, (ast.FunctionDef, ast.ClassDef)):
        return []
    return [st]


def untag(e):
    """remove the `@line` version tags expand() puts on re-defined names (for comparisons at one program point)"""
    class T(ast.NodeTransformer):
        def visit_Name(s, n):
            if '@' in n.id:
                return ast.copy_location(ast.Name(id=n.id.split('@')[0], ctx=n.ctx), n)
            return n
    return T().visit(copy.deepcopy(e))


_views = {}


def view_of(finfo):
    k = id(finfo)
    v = _views.get(k)
    if v is None or v.f is not finfo:
        v = FuncView(finfo)
        _views[k] = v
    return v


def clear_cache():
    _views.clear()
